"""Which functions of /repo/src are translated statement by statement (tools/rs2lean.py), how their receivers, callees
and struct literals are named in the model's vocabulary, and into which generated Lean file each goes.

The *call table* is the only place where a Rust callee is given a Lean meaning by hand: an entry either points to
another generated definition (`gen_…`, itself translated from the source) or to a model function (for callees that are
not in the translated subset, e.g. `BitVector::select`, whose own correctness is the subject of Props/C01).
"""
from rs2lean import U, W, B, U32, A, UNIT, translate, Unsupported, find_fn

BV = ("N", "BitVector")
IV = ("N", "IntVector")
RV = ("N", "RawVector")
OU = ("O", U)

STRUCTS = {
    "Pos": dict(lean="Pos", ctor=lambda v: "(⟨%s, %s⟩ : Pos)" % (v["high"], v["low"]), fields={"high": U, "low": U}, fieldmap={}),
    "Parts": dict(lean="(Nat × Nat)", ctor=lambda v: "(%s, %s)" % (v["high"], v["low"]), fields={"high": U, "low": U},
                  fieldmap={"high": "1", "low": "2"}),
    "BitVector": dict(lean="BitVector", ctor=None, fields={"data": RV, "ones": U}, fieldmap={}),
    "OneIter": dict(lean="OneIterSt", ctor=lambda v: "(⟨%s, %s⟩ : OneIterSt)" % (v["next"], v["limit"]),
                    fields={"parent": "SKIP", "_marker": "SKIP", "next": ("T", [U, U]), "limit": ("T", [U, U])}, fieldmap={}),
    "ZeroIter": dict(lean="OneIterSt", ctor=lambda v: "(⟨%s, %s⟩ : OneIterSt)" % (v["next"], v["limit"]),
                     fields={"parent": "SKIP", "_marker": "SKIP", "next": ("T", [U, U]), "limit": ("T", [U, U])}, fieldmap={}),
    "Iter": dict(lean="Cursor", ctor=lambda v: "(⟨%s, %s⟩ : Cursor)" % (v["next"], v["limit"]),
                 fields={"parent": "SKIP", "next": U, "limit": U}, fieldmap={}),
    "RankSupport": dict(lean="RankSup", ctor=None, fields={}, fieldmap={}),
    "SelectI": dict(lean="SelSup", ctor=None, fields={}, fieldmap={}),
    "SelectC": dict(lean="SelSup", ctor=None, fields={}, fieldmap={}),
    "IntVector": dict(lean="IntVec", ctor=None, fields={}, fieldmap={}),
    "RawVector": dict(lean="RawVec", ctor=None, fields={}, fieldmap={}),
    "Self": dict(lean="RawVec", ctor=None, fields={}, fieldmap={}),
    "Item": dict(lean="α", ctor=None, fields={}, fieldmap={}),
}

CALLS = {
    # ---- bits.rs (all generated)
    "bits::split_offset": dict(lean="gen_split_offset m {0}", ret=("T", [U, U])),
    "split_offset": dict(lean="gen_split_offset m {0}", ret=("T", [U, U])),
    "bits::bit_offset": dict(lean="gen_bit_offset m {0} {1}", ret=U),
    "bits::bits_to_words": dict(lean="gen_bits_to_words m {0}", ret=U),
    "bits::words_to_bits": dict(lean="gen_words_to_bits m {0}", ret=U),
    "bits::div_round_up": dict(lean="gen_div_round_up m {0} {1}", ret=U),
    "bits::low_set": dict(lean="gen_low_set m {0}", ret=W), "low_set": dict(lean="gen_low_set m {0}", ret=W),
    "bits::high_set": dict(lean="gen_high_set m {0}", ret=W), "high_set": dict(lean="gen_high_set m {0}", ret=W),
    "bits::low_set_unchecked": dict(lean="gen_low_set_unchecked m {0}", ret=W),
    "low_set_unchecked": dict(lean="gen_low_set_unchecked m {0}", ret=W),
    "bits::high_set_unchecked": dict(lean="gen_high_set_unchecked m {0}", ret=W),
    "high_set_unchecked": dict(lean="gen_high_set_unchecked m {0}", ret=W),
    "bits::filler_value": dict(lean="gen_filler_value m {0}", ret=W),
    "bits::read_int": dict(lean="gen_read_int m {0} {1} {2}", ret=W),
    "bits::write_int": dict(lean="gen_write_int m {0} {1} {2} {3}", ret=UNIT, mutarg=0, args=[A, U, W, U]),
    # ---- tables
    "LOW_SET[]": dict(lean="tableC Generated.LOW_SET {0}", ret=W),
    "HIGH_SET[]": dict(lean="tableC Generated.HIGH_SET {0}", ret=W),
    "LOW_SET.get_unchecked": dict(lean="tableU Generated.LOW_SET {0}", ret=W),
    "HIGH_SET.get_unchecked": dict(lean="tableU Generated.HIGH_SET {0}", ret=W),
    # ---- methods of model-level values (not translated; their correctness is C01 / C05)
    "<IntVector>.width": dict(lean="{0}.width", ret=U, monadic=False),
    "<IntVector>.len": dict(lean="{0}.len", ret=U, monadic=False),
    "<IntVector>.get": dict(lean="IntVec.get {0} {1}", ret=W),
    "<IntVector>.get_or": dict(lean="IntVec.getOr {0} {1} {2}", ret=W, monadic=False, args=[U, W]),
    "<BitVector>.select": dict(lean="BitVector.selectQ m {0} {1}", ret=OU),
    "<BitVector>.select_zero": dict(lean="BitVector.selectZeroQ m {0} {1}", ret=OU),
    "<BitVector>.rank": dict(lean="BitVector.rankQ {0} {1}", ret=U),
    "<BitVector>.rank_zero": dict(lean="BitVector.rankZeroQ m {0} {1}", ret=U),
    "<BitVector>.count_zeros": dict(lean="BitVector.countZeros {0}", ret=U, monadic=False),
    "<BitVector>.count_ones": dict(lean="BitVector.countOnes {0}", ret=U, monadic=False),
    "<BitVector>.len": dict(lean="BitVector.len {0}", ret=U, monadic=False),
    "<RawVector>.int": dict(lean="gen_RawVector_int m {0} {1} {2}", ret=W),
    "<RawVector>.bit": dict(lean="gen_RawVector_bit m {0} {1}", ret=B),
    "<RawVector>.word": dict(lean="gen_RawVector_word m {0} {1}", ret=W),
    "<RawVector>.word_unchecked": dict(lean="gen_RawVector_word_unchecked m {0} {1}", ret=W),
    "<RawVector>.len": dict(lean="{0}.len", ret=U, monadic=False),
    "<BitVector>.get": dict(lean="gen_BitVector_get m {0} {1}", ret=B),
    "<RankSupport>.rank_unchecked": dict(lean="gen_RankSupport_rank_unchecked m {0} {1}.data {2}", ret=U),
    "<SelectI>.select_unchecked": dict(lean="SelSup.selectU {0} .ident m {1}.data {2}", ret=U),
    "<SelectC>.select_unchecked": dict(lean="SelSup.selectU {0} .compl m {1}.data {2}", ret=U),
    "Identity::count_ones": dict(lean="BitVector.countOnes {0}", ret=U, monadic=False),
    "Complement::count_ones": dict(lean="BitVector.countZeros {0}", ret=U, monadic=False),
    "Self::OneIter::empty_iter": dict(lean="OneIterSt.emptyIter .ident {0}", ret=("N", "OneIter"), monadic=False),
    "Self::ZeroIter::empty_iter": dict(lean="OneIterSt.emptyIter .compl {0}", ret=("N", "OneIter"), monadic=False),
}

RAW_SELF = dict(lean="RawVec", var="v", fields={"len": ("len", U), "data": ("data", A)}, order=["len", "data"])
RAW_CALLS = {
    "self.len": dict(lean="self_len", ret=U, monadic=False),
    "self.is_empty": dict(lean="decide (self_len = 0)", ret=B, monadic=False),
    "self.data.len": dict(lean="self_data.size", ret=U, monadic=False),
    "self.data.push": dict(lean="self_data.push {0}", ret=UNIT, monadic=False, setvar="self_data", args=[W]),
    "self.data.resize": dict(lean="resizeArr self_data {0} {1}", ret=UNIT, monadic=False, setvar="self_data", args=[U, W]),
    "self.bit": dict(lean="gen_RawVector_bit m {self} {0}", ret=B),
    "self.int": dict(lean="gen_RawVector_int m {self} {0} {1}", ret=W),
    "self.set_unused_bits": dict(lean="gen_RawVector_set_unused_bits m {self} {0}", ret=UNIT, mutself=True, args=[B]),
    "self.data.get_unchecked": dict(lean="getW self_data {0}", ret=W),
}
RAW_RO_CALLS = {
    "self.len": dict(lean="v.len", ret=U, monadic=False),
    "self.data.len": dict(lean="v.data.size", ret=U, monadic=False),
    "self.data.get_unchecked": dict(lean="getW v.data {0}", ret=W),
}


def raw(fn, impl, mut, extra=None):
    s = dict(RAW_SELF, mut=mut)
    calls = dict(RAW_CALLS if mut else RAW_RO_CALLS)
    calls.update(extra or {})
    return dict(file="raw_vector.rs", impl=impl, fn=fn, name="gen_RawVector_" + fn, self=s, calls=calls)


INT_SELF = dict(lean="IntVec", var="v", fields={"len": ("len", U), "width": ("width", U), "data": ("data", RV)},
                order=["len", "width", "data"])
INT_CALLS_MUT = {
    "self.len": dict(lean="self_len", ret=U, monadic=False),
    "self.width": dict(lean="self_width", ret=U, monadic=False),
    "self.data.set_int": dict(lean="gen_RawVector_set_int m self_data {0} {1} {2}", ret=UNIT, setvar="self_data", args=[U, W, U]),
    "self.data.push_int": dict(lean="gen_RawVector_push_int m self_data {0} {1}", ret=UNIT, setvar="self_data", args=[W, U]),
}
INT_CALLS_RO = {
    "self.len": dict(lean="v.len", ret=U, monadic=False),
    "self.width": dict(lean="v.width", ret=U, monadic=False),
}
ITEM = {"<Self as Vector>::Item": W}

SPARSE_SELF = dict(lean="Sparse", var="s", fields={"len": ("len", U), "high": ("high", BV), "low": ("low", IV)},
                   order=["len", "high", "low"], mut=False)
IDX_SELF = dict(lean="SampleIndex", var="s", fields={"num_values": ("numValues", U), "divisor": ("divisor", U),
                                                      "samples": ("samples", IV)}, order=[], mut=False)
WM_SELF = dict(lean="WMCore", var="c", fields={"levels": ("levels", ("N", "Levels"))}, order=[], mut=False)
WM_CALLS = {"self.levels[]": dict(lean="WMCore.level c {0}", ret=BV),
            "self.width": dict(lean="c.width", ret=U, monadic=False)}
RANK_SELF = dict(lean="RankSup", var="s", fields={"samples": ("samples", ("N", "Samples"))}, order=[], mut=False)
RANK_CALLS = {"self.samples[]": dict(lean="getPairC s.samples {0}", ret=("T", [W, W])),
              "self.samples.get_unchecked": dict(lean="getPairU s.samples {0}", ret=("T", [W, W])),
              "parent.data.word": dict(lean="RawVec.wordM parent {0}", ret=W),
              "parent.data.word_unchecked": dict(lean="RawVec.wordU parent {0}", ret=W)}
RANK_PARAMS = {"parent": ("(parent : RawVec)", ("N", "ParentBitVector"), "parent")}

ITEM_T = ("N", "Item")
ITER_SELF = dict(lean="Cursor", var="c", fields={"next": ("next", U), "limit": ("limit", U)}, order=["next", "limit"])


def iter_fns(file, prefix, impl_fwd, impl_back):
    """the five methods of a two-cursor iterator (`ops::AccessIter`, `bit_vector::Iter`): the parent's `get` is a parameter"""
    calls = {"self.parent.get": dict(lean="get {0}", ret=ITEM_T, monadic=False),
             "cmp::min": dict(lean="min {0} {1}", ret=U, monadic=False, args=[U, U]),
             "self.next": dict(lean="gen_%s_next m get {self}" % prefix, ret=("O", ITEM_T), mutself=True),
             "self.next_back": dict(lean="gen_%s_next_back m get {self}" % prefix, ret=("O", ITEM_T), mutself=True)}
    common = dict(file=file, binders=["{α : Type}", "(get : Nat → α)"], calls=calls, tyalias={"Self::Item": ITEM_T})
    out = []
    for fn, impl, mut in (("next", impl_fwd, True), ("nth", impl_fwd, True), ("size_hint", impl_fwd, False),
                          ("next_back", impl_back, True), ("nth_back", impl_back, True)):
        out.append(dict(common, impl=impl, fn=fn, name="gen_%s_%s" % (prefix, fn), self=dict(ITER_SELF, mut=mut)))
    return out


# (generated file, imports, [function configs])
GROUPS = [
    ("FnsBits.lean", ["Sds.Model.GenSupport", "Sds.Generated.BitsFns"], [
        dict(file="bits.rs", fn="low_set", name="gen_low_set"),
        dict(file="bits.rs", fn="low_set_unchecked", name="gen_low_set_unchecked"),
        dict(file="bits.rs", fn="high_set", name="gen_high_set"),
        dict(file="bits.rs", fn="high_set_unchecked", name="gen_high_set_unchecked"),
        dict(file="bits.rs", fn="bit_len", name="gen_bit_len"),
        dict(file="bits.rs", fn="reverse_low", name="gen_reverse_low"),
        dict(file="bits.rs", fn="filler_value", name="gen_filler_value"),
        dict(file="bits.rs", fn="read_int", name="gen_read_int", generic_arrays=("T",)),
        dict(file="bits.rs", fn="write_int", name="gen_write_int", generic_arrays=("T",), returns_arrays=["array"]),
    ]),
    ("FnsVec.lean", ["Sds.Model.IntVec", "Sds.Generated.FnsBits"], [
        raw("bit", r"impl AccessRaw for RawVector\b", False),
        raw("int", r"impl AccessRaw for RawVector\b", False, {"bits::read_int": dict(lean="gen_read_int m {0} {1} {2}", ret=W)}),
        raw("word", r"impl AccessRaw for RawVector\b", False),
        raw("word_unchecked", r"impl AccessRaw for RawVector\b", False),
        raw("set_unused_bits", r"impl RawVector\b", True),
        raw("set_bit", r"impl AccessRaw for RawVector\b", True),
        raw("set_int", r"impl AccessRaw for RawVector\b", True),
        raw("push_bit", r"impl PushRaw for RawVector\b", True),
        raw("push_int", r"impl PushRaw for RawVector\b", True),
        raw("pop_bit", r"impl PopRaw for RawVector\b", True),
        raw("pop_int", r"impl PopRaw for RawVector\b", True),
        raw("resize", r"impl RawVector\b", True),
        dict(file="int_vector.rs", impl=r"impl<'a> Access<'a> for IntVector\b", fn="get", name="gen_IntVector_get",
             self=dict(INT_SELF, mut=False), calls=INT_CALLS_RO, tyalias=ITEM),
        dict(file="int_vector.rs", impl=r"impl<'a> Access<'a> for IntVector\b", fn="set", name="gen_IntVector_set",
             self=dict(INT_SELF, mut=True), calls=INT_CALLS_MUT, tyalias=ITEM),
        dict(file="int_vector.rs", impl=r"impl Push for IntVector\b", fn="push", name="gen_IntVector_push",
             self=dict(INT_SELF, mut=True), calls=INT_CALLS_MUT, tyalias=ITEM),
    ]),
    ("FnsIdx.lean", ["Sds.Model.WM", "Sds.Model.RL", "Sds.Generated.FnsVec"], [
        dict(file="bit_vector/rank_support.rs", impl=r"impl RankSupport\b", fn="rank", name="gen_RankSupport_rank",
             self=RANK_SELF, calls=RANK_CALLS, params=RANK_PARAMS),
        dict(file="bit_vector/rank_support.rs", impl=r"impl RankSupport\b", fn="rank_unchecked", name="gen_RankSupport_rank_unchecked",
             self=RANK_SELF, calls=RANK_CALLS, params=RANK_PARAMS),
        dict(file="sparse_vector.rs", impl=r"impl SparseVector\b", fn="split", name="gen_SparseVector_split", self=SPARSE_SELF),
        dict(file="sparse_vector.rs", impl=r"impl SparseVector\b", fn="combine", name="gen_SparseVector_combine", self=SPARSE_SELF),
        dict(file="sparse_vector.rs", impl=r"impl SparseVector\b", fn="pos", name="gen_SparseVector_pos", self=SPARSE_SELF),
        dict(file="sparse_vector.rs", impl=r"impl SparseVector\b", fn="lower_bound", name="gen_SparseVector_lower_bound", self=SPARSE_SELF),
        dict(file="sparse_vector.rs", impl=r"impl SparseVector\b", fn="upper_bound", name="gen_SparseVector_upper_bound", self=SPARSE_SELF),
        dict(file="sparse_vector.rs", impl=r"impl SparseBuilder\b", fn="get_buckets", name="gen_SparseBuilder_get_buckets"),
        dict(file="rl_vector/index.rs", impl=r"impl SampleIndex\b", fn="div_round_up", name="gen_SampleIndex_div_round_up"),
        dict(file="rl_vector/index.rs", impl=r"impl SampleIndex\b", fn="parameters", name="gen_SampleIndex_parameters",
             calls={"Self::div_round_up": dict(lean="gen_SampleIndex_div_round_up m {0} {1}", ret=U)}),
        dict(file="rl_vector/index.rs", impl=r"impl SampleIndex\b", fn="range", name="gen_SampleIndex_range", self=IDX_SELF),
        dict(file="wavelet_matrix/wm_core.rs", impl=r"impl WMCore\b", fn="bit_value", name="gen_WMCore_bit_value", self=WM_SELF, calls=WM_CALLS),
        dict(file="wavelet_matrix/wm_core.rs", impl=r"impl WMCore\b", fn="map_down_one", name="gen_WMCore_map_down_one", self=WM_SELF, calls=WM_CALLS),
        dict(file="wavelet_matrix/wm_core.rs", impl=r"impl WMCore\b", fn="map_down_zero", name="gen_WMCore_map_down_zero", self=WM_SELF, calls=WM_CALLS),
        dict(file="wavelet_matrix/wm_core.rs", impl=r"impl WMCore\b", fn="map_up_one", name="gen_WMCore_map_up_one", self=WM_SELF, calls=WM_CALLS),
        dict(file="wavelet_matrix/wm_core.rs", impl=r"impl WMCore\b", fn="map_up_zero", name="gen_WMCore_map_up_zero", self=WM_SELF, calls=WM_CALLS),
    ]),
]


GROUPS.append(("FnsIter.lean", ["Sds.Model.Iter", "Sds.Model.GenSupport"],
               iter_fns("ops.rs", "AccessIter", r"impl<'a, VectorType: Access<'a>> Iterator for AccessIter\b",
                        r"impl<'a, VectorType: Access<'a>> DoubleEndedIterator for AccessIter\b")
               + iter_fns("bit_vector.rs", "BitIter", r"impl<'a> Iterator for Iter<'a>", r"impl<'a> DoubleEndedIterator for Iter<'a>")))


BV_SELF = dict(lean="BitVector", var="b", rust="BitVector", mut=False, order=[],
               fields={"ones": ("ones", U), "data": ("data", RV), "rank": ("rank", ("O", ("N", "RankSupport"))),
                       "select": ("select", ("O", ("N", "SelectI"))), "select_zero": ("selectZero", ("O", ("N", "SelectC")))})
BV_CALLS = {"self.len": dict(lean="BitVector.len b", ret=U, monadic=False),
            "self.count_ones": dict(lean="BitVector.countOnes b", ret=U, monadic=False),
            "self.rank": dict(lean="gen_BitVector_rank m b {0}", ret=U),
            "self.select_iter": dict(lean="gen_BitVector_select_iter m b {0}", ret=("N", "OneIter"))}
BV_ALIAS = {"Self::OneIter": ("N", "OneIter"), "Self::ZeroIter": ("N", "OneIter"), "Self::Iter": ("N", "Iter")}


def bv(fn, impl, name=None):
    return dict(file="bit_vector.rs", impl=impl, fn=fn, name="gen_BitVector_" + (name or fn), self=BV_SELF, calls=BV_CALLS,
                tyalias=BV_ALIAS)


def tr(fn, which):
    return dict(file="bit_vector.rs", impl=r"impl Transformation for %s\b" % which, fn=fn, name="gen_%s_%s" % (which, fn))


GROUPS.append(("FnsBv.lean", ["Sds.Model.Iter", "Sds.Generated.FnsIdx"], [
    bv("len", r"impl<'a> BitVec<'a> for BitVector\b"), bv("count_ones", r"impl<'a> BitVec<'a> for BitVector\b"),
    bv("get", r"impl<'a> BitVec<'a> for BitVector\b"), bv("iter", r"impl<'a> BitVec<'a> for BitVector\b"),
    bv("rank", r"impl<'a> Rank<'a> for BitVector\b"),
    bv("one_iter", r"impl<'a> Select<'a> for BitVector\b"), bv("select", r"impl<'a> Select<'a> for BitVector\b"),
    bv("select_iter", r"impl<'a> Select<'a> for BitVector\b"),
    bv("zero_iter", r"impl<'a> SelectZero<'a> for BitVector\b"), bv("select_zero", r"impl<'a> SelectZero<'a> for BitVector\b"),
    bv("select_zero_iter", r"impl<'a> SelectZero<'a> for BitVector\b"),
    bv("predecessor", r"impl<'a> PredSucc<'a> for BitVector\b"), bv("successor", r"impl<'a> PredSucc<'a> for BitVector\b"),
    tr("bit", "Identity"), tr("word", "Identity"), tr("word_unchecked", "Identity"), tr("count_ones", "Identity"),
    tr("bit", "Complement"), tr("word", "Complement"), tr("word_unchecked", "Complement"), tr("count_ones", "Complement"),
]))


PAIRS = ("N", "SamplePairs")
STRUCTS["SamplePairs"] = dict(lean="(Array (Nat × Nat))", ctor=None, fields={}, fieldmap={})
RLB_SELF = dict(lean="RLBuilder", var="b", rust="RLBuilder",
                fields={"len": ("len", U), "ones": ("ones", U), "tail": ("tail", U), "run": ("run", ("T", [U, U])),
                        "samples": ("samples", PAIRS), "data": ("data", IV)},
                order=["len", "ones", "tail", "run", "samples", "data"])
RLB_MUT = {
    "self.len": dict(lean="self_len", ret=U, monadic=False),
    "self.count_ones": dict(lean="self_ones", ret=U, monadic=False),
    "self.tail": dict(lean="self_tail", ret=U, monadic=False),
    "self.blocks": dict(lean="self_samples.size", ret=U, monadic=False),
    "self.flush": dict(lean="gen_RLBuilder_flush m {self}", ret=UNIT, mutself=True),
    "self.set_run_unchecked": dict(lean="gen_RLBuilder_set_run_unchecked m {self} {0} {1}", ret=UNIT, mutself=True, args=[U, U]),
    "Self::code_len": dict(lean="gen_RLBuilder_code_len m {0}", ret=U),
    "self.data.resize": dict(lean="IntVec.resize self_data {0} {1}", ret=UNIT, monadic=False, setvar="self_data", args=[U, W]),
    "self.samples.push": dict(lean="self_samples.push {0}", ret=UNIT, monadic=False, setvar="self_samples", args=[("T", [U, U])]),
    # `encode` is a `while` loop over the value: outside the translated subset, named here by its model function
    "self.encode": dict(lean="RLBuilder.encode self_data {0}", ret=UNIT, monadic=False, setvar="self_data", args=[U]),
}
RLB_RO = {"self.len": dict(lean="b.len", ret=U, monadic=False), "self.count_ones": dict(lean="b.ones", ret=U, monadic=False)}
CALLS["bits::bit_len"] = dict(lean="gen_bit_len m {0}", ret=U)


def rlb(fn, mut):
    return dict(file="rl_vector.rs", impl=r"impl RLBuilder\b", fn=fn, name="gen_RLBuilder_" + fn,
                self=dict(RLB_SELF, mut=mut), calls=RLB_MUT if mut else RLB_RO)


SPB_SELF = dict(lean="SparseBuilder", var="b", rust="SparseBuilder",
                fields={"univ": ("univ", U), "low": ("low", IV), "high": ("high", RV), "len": ("len", U), "next": ("next", U),
                        "increment": ("increment", U)},
                order=["univ", "low", "high", "len", "next", "increment"])
# the Rust builder keeps `data: SparseVector { len, high (unused until the end), low }`; the model flattens it to `univ`, `low`
SPB_MUT = {
    "self.len": dict(lean="self_len", ret=U, monadic=False),
    "self.is_full": dict(lean="gen_SparseBuilder_is_full m {self}", ret=B),
    "self.next_index": dict(lean="self_next", ret=U, monadic=False),
    "self.universe": dict(lean="self_univ", ret=U, monadic=False),
    "self.set_unchecked": dict(lean="gen_SparseBuilder_set_unchecked m {self} {0}", ret=UNIT, mutself=True, args=[U]),
    "self.data.split": dict(lean="gen_SparseVector_split m (⟨self_univ, default, self_low⟩ : Sparse) {0}", ret=("N", "Parts")),
    "self.high.set_bit": dict(lean="gen_RawVector_set_bit m self_high {0} {1}", ret=UNIT, setvar="self_high", args=[U, B]),
    "self.data.low.set": dict(lean="gen_IntVector_set m self_low {0} {1}", ret=UNIT, setvar="self_low", args=[U, W]),
}
SPB_RO = {
    "self.len": dict(lean="b.len", ret=U, monadic=False),
    "self.capacity": dict(lean="gen_SparseBuilder_capacity m b", ret=U),
    "self.data.count_ones": dict(lean="b.low.len", ret=U, monadic=False),
    "self.data.len": dict(lean="b.univ", ret=U, monadic=False),
}


def spb(fn, mut):
    return dict(file="sparse_vector.rs", impl=r"impl SparseBuilder\b", fn=fn, name="gen_SparseBuilder_" + fn,
                self=dict(SPB_SELF, mut=mut), calls=SPB_MUT if mut else SPB_RO)


SPARSE_CALLS = {"self.count_ones": dict(lean="Sparse.countOnes s", ret=U, monadic=False),
                "self.pos": dict(lean="gen_SparseVector_pos m s {0}", ret=("N", "Pos")),
                "self.combine": dict(lean="gen_SparseVector_combine m s {0}", ret=("T", [U, U]))}

GROUPS.append(("FnsBuild.lean", ["Sds.Model.WM", "Sds.Model.RL", "Sds.Generated.FnsIdx"], [
    rlb("count_zeros", False), rlb("code_len", False), rlb("flush", True), rlb("set_run_unchecked", True),
    rlb("set_bit_unchecked", True), rlb("try_set", True), rlb("set_len", True),
    spb("is_multiset", False), spb("capacity", False), spb("universe", False), spb("next_index", False),
    spb("is_full", False), spb("is_empty", False), spb("set_unchecked", True), spb("try_set", True),
    dict(file="sparse_vector.rs", impl=r"impl<'a> Select<'a> for SparseVector\b", fn="select", name="gen_SparseVector_select",
         self=SPARSE_SELF, calls=SPARSE_CALLS),
]))


# ---- loaders: `fn load<T: io::Read>(reader: &mut T) -> io::Result<Self>`; the reader is the list of remaining elements
SAMPLES_T = ("N", "SamplesVec")
STRUCTS["SamplesVec"] = dict(lean="(Array (Word × Word))", ctor=None, fields={}, fieldmap={})
STRUCTS["RawVector"] = dict(lean="RawVec", ctor=lambda v: "(⟨%s, %s⟩ : RawVec)" % (v["len"], v["data"]), fields={"len": U, "data": A}, fieldmap={})
STRUCTS["IntVector"] = dict(lean="IntVec", ctor=lambda v: "(⟨%s, %s, %s⟩ : IntVec)" % (v["len"], v["width"], v["data"]),
                            fields={"len": U, "width": U, "data": RV}, fieldmap={})
STRUCTS["RankSupport"] = dict(lean="RankSup", ctor=lambda v: "(⟨%s⟩ : RankSup)" % v["samples"], fields={"samples": SAMPLES_T}, fieldmap={})
STRUCTS["SelectSupport"] = dict(lean="SelSup", ctor=lambda v: "(⟨%s, %s, %s⟩ : SelSup)" % (v["samples"], v["long"], v["short"]),
                                fields={"samples": IV, "long": IV, "short": IV, "_marker": "SKIP"}, fieldmap={})
STRUCTS["BitVector"] = dict(lean="BitVector", ctor=lambda v: "({ ones := %s, data := %s, rank := %s, select := %s, selectZero := %s } : BitVector)"
                            % (v["ones"], v["data"], v["rank"], v["select"], v["select_zero"]),
                            fields={"data": RV, "ones": U, "rank": ("O", ("N", "RankSupport")), "select": ("O", ("N", "SelectI")),
                                    "select_zero": ("O", ("N", "SelectC"))}, fieldmap={})
STRUCTS["SparseVector"] = dict(lean="Sparse", ctor=lambda v: "(⟨%s, %s, %s⟩ : Sparse)" % (v["len"], v["high"], v["low"]),
                               fields={"len": U, "high": BV, "low": IV}, fieldmap={})
STRUCTS["WMCore"] = dict(lean="WMCore", ctor=None, fields={}, fieldmap={})
STRUCTS["WaveletMatrix"] = dict(lean="WM", ctor=lambda v: "(⟨%s, %s, %s⟩ : WM)" % (v["len"], v["data"], v["first"]),
                                fields={"len": U, "data": ("N", "WMCore"), "first": IV}, fieldmap={})
LOADS = {
    "usize::load": dict(lean="usizeC.load {0}", ret=U, load=True),
    "<Vec<u64>asSerialize>::load": dict(lean="vecU64C.load {0}", ret=A, load=True),
    "Vec::<(u64,u64)>::load": dict(lean="vecPairC.load {0}", ret=SAMPLES_T, load=True),
    "RawVector::load": dict(lean="gen_RawVector_load m {0}", ret=RV, load=True),
    "IntVector::load": dict(lean="gen_IntVector_load m {0}", ret=IV, load=True),
    "BitVector::load": dict(lean="gen_BitVector_load m {0}", ret=BV, load=True),
    # generic `impl Serialize for Option<V>` (length prefix, then `V::load`) and the loop of `WMCore::load` are outside
    # the translated subset: named by their model codecs
    "Option::<RankSupport>::load": dict(lean="(optionC rankSupC).load {0}", ret=("O", ("N", "RankSupport")), load=True),
    "Option::<SelectSupport<Identity>>::load": dict(lean="(optionC selSupC).load {0}", ret=("O", ("N", "SelectI")), load=True),
    "Option::<SelectSupport<Complement>>::load": dict(lean="(optionC selSupC).load {0}", ret=("O", ("N", "SelectC")), load=True),
    "WMCore::load": dict(lean="wmCoreC.load {0}", ret=("N", "WMCore"), load=True),
    "<RankSupport>.blocks": dict(lean="{0}.samples.size", ret=U, monadic=False),
    "<SelectI>.superblocks": dict(lean="gen_SelectSupport_superblocks m {0}", ret=U),
    "<SelectC>.superblocks": dict(lean="gen_SelectSupport_superblocks m {0}", ret=U),
    "<SelectSupport>.superblocks": dict(lean="gen_SelectSupport_superblocks m {0}", ret=U),
    "<SelectSupport>.long_superblocks": dict(lean="gen_SelectSupport_long_superblocks m {0}", ret=U),
    "<SelectSupport>.short_superblocks": dict(lean="gen_SelectSupport_short_superblocks m {0}", ret=U),
    "<BitVector>.enable_select": dict(lean="BitVector.enableSelect {0}", ret=UNIT, mutrecv=True),
    "<BitVector>.enable_select_zero": dict(lean="BitVector.enableSelectZero {0}", ret=UNIT, mutrecv=True),
    "SparseBuilder::get_buckets": dict(lean="gen_SparseBuilder_get_buckets m {0} {1}", ret=U),
    "<WMCore>.len": dict(lean="WMCore.len {0}", ret=U),
}
SEL_SELF = dict(lean="SelSup", var="s", rust="SelectSupport", mut=False, order=[],
                fields={"samples": ("samples", IV), "long": ("long", IV), "short": ("short", IV)})


def loader(file, ty, impl, ret):
    return dict(file=file, impl=impl, fn="load", name="gen_%s_load" % ty, reader="reader", ret=ret, calls=LOADS)


GROUPS.append(("FnsLoad.lean", ["Sds.Model.WM", "Sds.Generated.FnsIdx"], [
    dict(file="bit_vector/select_support.rs", impl=r"impl<T: Transformation> SelectSupport<T>", fn="superblocks",
         name="gen_SelectSupport_superblocks", self=SEL_SELF),
    dict(file="bit_vector/select_support.rs", impl=r"impl<T: Transformation> SelectSupport<T>", fn="long_superblocks",
         name="gen_SelectSupport_long_superblocks", self=SEL_SELF),
    dict(file="bit_vector/select_support.rs", impl=r"impl<T: Transformation> SelectSupport<T>", fn="short_superblocks",
         name="gen_SelectSupport_short_superblocks", self=SEL_SELF),
    loader("raw_vector.rs", "RawVector", r"impl Serialize for RawVector\b", RV),
    loader("int_vector.rs", "IntVector", r"impl Serialize for IntVector\b", IV),
    loader("bit_vector/rank_support.rs", "RankSupport", r"impl Serialize for RankSupport\b", ("N", "RankSupport")),
    loader("bit_vector/select_support.rs", "SelectSupport", r"impl<T: Transformation> Serialize for SelectSupport<T>", ("N", "SelectSupport")),
    loader("bit_vector.rs", "BitVector", r"impl Serialize for BitVector\b", BV),
    loader("sparse_vector.rs", "SparseVector", r"impl Serialize for SparseVector\b", ("N", "SparseVector")),
    loader("wavelet_matrix.rs", "WaveletMatrix", r"impl Serialize for WaveletMatrix\b", ("N", "WaveletMatrix")),
]))


# ---- functions with loops: every `while` / `loop` gets an explicit iteration bound (a Lean expression over the
# parameters), chosen as the bound the hand-written model uses for the same loop
SP_LOOP_CALLS = {
    "self.split": dict(lean="gen_SparseVector_split m s {0}", ret=("N", "Parts")),
    "self.lower_bound": dict(lean="gen_SparseVector_lower_bound m s {0}", ret=("N", "Pos")),
    "self.upper_bound": dict(lean="gen_SparseVector_upper_bound m s {0}", ret=("N", "Pos")),
    "self.len": dict(lean="s.len", ret=U, monadic=False),
    "self.count_ones": dict(lean="Sparse.countOnes s", ret=U, monadic=False),
    "self.is_empty": dict(lean="decide (s.len = 0)", ret=B, monadic=False),
    "<BitVector>.get": dict(lean="BitVector.get {0} {1}", ret=B),
    "cmp::min": dict(lean="min {0} {1}", ret=U, monadic=False, args=[U, U]),
    "Self::OneIter::empty_iter": dict(lean="SpOneIter.emptyIter {0}", ret=("N", "SpOneIter"), monadic=False),
}
STRUCTS["SpOneIter"] = dict(lean="SpOneIter", ctor=None, fields={}, fieldmap={})
SP_ITER_STRUCT = dict(lean="SpOneIter", ctor=lambda v: "(⟨%s, %s⟩ : SpOneIter)" % (v["next"], v["limit"]),
                      fields={"parent": "SKIP", "next": ("N", "Pos"), "limit": ("N", "Pos")}, fieldmap={})


def sp_loop(fn, impl, fuel, structs_over=None):
    d = dict(file="sparse_vector.rs", impl=impl, fn=fn, name="gen_SparseVector_" + fn, self=dict(SPARSE_SELF, rust="SparseVector"),
             calls=SP_LOOP_CALLS, fuel=fuel, tyalias={"Self::OneIter": ("N", "SpOneIter")})
    if structs_over:
        d["structs_over"] = structs_over
    return d


GROUPS.append(("FnsLoop.lean", ["Sds.Model.WM", "Sds.Generated.FnsIdx"], [
    sp_loop("count_zeros", r"impl<'a> BitVec<'a> for SparseVector\b", []),
    sp_loop("get", r"impl<'a> BitVec<'a> for SparseVector\b", ["s.high.len + 1"]),
    sp_loop("rank", r"impl<'a> Rank<'a> for SparseVector\b", ["s.high.len + 1"]),
    sp_loop("predecessor", r"impl<'a> PredSucc<'a> for SparseVector\b", ["s.high.len + 1", "s.high.len + 1"], {"OneIter": SP_ITER_STRUCT}),
    sp_loop("successor", r"impl<'a> PredSucc<'a> for SparseVector\b", ["s.high.len + 1", "s.high.len + 1"], {"OneIter": SP_ITER_STRUCT}),
]))


SELU_CALLS = {"T::word_unchecked": dict(lean="wordT tr {0} {1}", ret=W),
              "bits::select": dict(lean="selWord {0} {1}", ret=U, args=[W, U])}
GROUPS[-1][2].append(dict(file="bit_vector/select_support.rs", impl=r"impl<T: Transformation> SelectSupport<T>", fn="select_unchecked",
                          name="gen_SelectSupport_select_unchecked", self=SEL_SELF, calls=SELU_CALLS, binders=["(tr : Tr)"],
                          params={"parent": ("(parent : RawVec)", ("N", "ParentRaw"), "parent")}, fuel=["parent.data.size + 1"]))


ONE_SELF = dict(lean="OneIterSt", var="it", rust="OneIter", mut=True, order=["next", "limit"],
                fields={"next": ("next", ("T", [U, U])), "limit": ("limit", ("T", [U, U]))})
ONE_CALLS = {"T::word_unchecked": dict(lean="wordT tr parent {1}", ret=W, ignore_args=(0,)),
             "bits::select": dict(lean="selWord {0} {1}", ret=U, args=[W, U])}


def one_iter(fn, impl, fuel, mut=True):
    return dict(file="bit_vector.rs", impl=impl, fn=fn, name="gen_OneIter_" + fn, self=dict(ONE_SELF, mut=mut), calls=ONE_CALLS,
                binders=["(tr : Tr)", "(parent : RawVec)"], fuel=fuel, tyalias={"Self::Item": ("T", [U, U])})


GROUPS[-1][2].extend([
    one_iter("next", r"impl<'a, T: Transformation \+ \?Sized> Iterator for OneIter<'a, T>", ["parent.data.size + 1"]),
    one_iter("nth", r"impl<'a, T: Transformation \+ \?Sized> Iterator for OneIter<'a, T>", ["parent.data.size + 1"]),
    one_iter("size_hint", r"impl<'a, T: Transformation \+ \?Sized> Iterator for OneIter<'a, T>", [], mut=False),
    one_iter("next_back", r"impl<'a, T: Transformation \+ \?Sized> DoubleEndedIterator for OneIter<'a, T>", ["parent.data.size + 1"]),
])


SI = ("N", "SampleIndex")
STRUCTS["SampleIndex"] = dict(lean="SampleIndex", ctor=None, fields={}, fieldmap={})
STRUCTS["RunIter"] = dict(lean="RunIter", ctor=lambda v: "(⟨%s, %s, %s⟩ : RunIter)" % (v["offset"], v["pos"], v["limit"]),
                          fields={"parent": "SKIP", "offset": U, "pos": ("T", [U, U]), "limit": U}, fieldmap={})
RLV_SELF = dict(lean="RL", var="v", rust="RLVector", mut=False, order=[],
                fields={"len": ("len", U), "ones": ("ones", U), "rank_index": ("rankIndex", SI), "select_index": ("selectIndex", SI),
                        "select_zero_index": ("selectZeroIndex", SI), "samples": ("samples", IV), "data": ("data", IV)})
RLV_CALLS = {"self.blocks": dict(lean="gen_RLVector_blocks m v", ret=U),
             "self.count_ones": dict(lean="v.ones", ret=U, monadic=False),
             "self.ones_after": dict(lean="gen_RLVector_ones_after m v {0}", ret=U),
             "<IntVector>.is_empty": dict(lean="decide ({0}.len = 0)", ret=B, monadic=False),
             "f": dict(lean="f {0}", ret=U)}


def rlv(fn, fuel=(), **kw):
    return dict(dict(file="rl_vector.rs", impl=r"impl RLVector\s", fn=fn, name="gen_RLVector_" + fn, self=RLV_SELF, calls=RLV_CALLS,
                     fuel=list(fuel)), **kw)


GROUPS[-1][2].extend([
    rlv("blocks"), rlv("ones_after"), rlv("decode", ["23"]), rlv("run_iter"), rlv("iter_for_block"),
    dict(file="rl_vector.rs", impl=r"impl RLVector\s", fn="block_for", name="gen_RLVector_block_for", calls=RLV_CALLS,
         fuel=["high + 1"], params={"f": ("(f : Nat → Outcome Nat)", ("N", "Fn"), "f")}),
])
GROUPS[-1] = (GROUPS[-1][0], GROUPS[-1][1] + ["Sds.Model.RL"], GROUPS[-1][2])


WM_LOOP_CALLS = dict(WM_CALLS, **{
    "self.len": dict(lean="WMCore.len c", ret=U),
    "<BitVector>.get": dict(lean="BitVector.get {0} {1}", ret=B),
    "cmp::min": dict(lean="min {0} {1}", ret=U, monadic=False, args=[U, U]),
    "self.map_down_one": dict(lean="gen_WMCore_map_down_one m c {0} {1}", ret=U),
    "self.map_down_zero": dict(lean="gen_WMCore_map_down_zero m c {0} {1}", ret=U),
    "self.map_up_one": dict(lean="gen_WMCore_map_up_one m c {0} {1}", ret=("O", U)),
    "self.map_up_zero": dict(lean="gen_WMCore_map_up_zero m c {0} {1}", ret=("O", U)),
    "self.bit_value": dict(lean="gen_WMCore_bit_value m c {0}", ret=W),
})


def wml(fn, **kw):
    return dict(dict(file="wavelet_matrix/wm_core.rs", impl=r"impl WMCore\b", fn=fn, name="gen_WMCore_" + fn, self=WM_SELF,
                     calls=WM_LOOP_CALLS), **kw)


GROUPS[-1][2].extend([wml("map_down", local_types={"value": W}), wml("map_down_with"), wml("map_down_with_two_positions"),
                      wml("map_up_with")])


# ---- wavelet_matrix.rs: the queries of WaveletMatrix, ValueIter::next, and the default predecessor / successor of ops.rs
WMX_SELF = dict(lean="WM", var="w", rust="WaveletMatrix", mut=False, order=[],
                fields={"len": ("len", U), "data": ("data", ("N", "WMCore")), "first": ("first", IV)})
WMX_ALIAS = {"<Self as Vector>::Item": W, "<SelfasVector>::Item": W, "Self::ValueIter": U}
WMX_CALLS = {
    "self.len": dict(lean="w.len", ret=U, monadic=False),
    "self.start": dict(lean="gen_WaveletMatrix_start m w {0}", ret=U),
    "self.contains": dict(lean="gen_WaveletMatrix_contains m w {0}", ret=B),
    "self.rank": dict(lean="gen_WaveletMatrix_rank m w {0} {1}", ret=U),
    "self.inverse_select": dict(lean="gen_WaveletMatrix_inverse_select m w {0}", ret=("O", ("T", [U, W]))),
    "<WMCore>.map_down_with": dict(lean="gen_WMCore_map_down_with m {0} {1} {2}", ret=U),
    "<WMCore>.map_down": dict(lean="gen_WMCore_map_down m {0} {1}", ret=("O", ("T", [U, W]))),
    "<WMCore>.map_up_with": dict(lean="gen_WMCore_map_up_with m {0} {1} {2}", ret=("O", U)),
    # a ValueIter is (parent, value, rank): with parent and value fixed it is identified by its rank
    "self.select_iter": dict(lean="{0}", ret=U, monadic=False),
}


def wmx(fn, impl, **kw):
    return dict(dict(file="wavelet_matrix.rs", impl=impl, fn=fn, name="gen_WaveletMatrix_" + fn, self=WMX_SELF, calls=WMX_CALLS,
                     tyalias=WMX_ALIAS), **kw)


VI_SELF = dict(lean="(Word × Nat)", var="it", rust="ValueIter", mut=True, order=["value", "rank"],
               fields={"value": ("1", W), "rank": ("2", U)})
GROUPS.append(("FnsWM.lean", ["Sds.Model.WM", "Sds.Generated.FnsLoop"], [
    wmx("start", r"impl WaveletMatrix\s"), wmx("contains", r"impl<'a> VectorIndex<'a> for WaveletMatrix\b"),
    wmx("rank", r"impl<'a> VectorIndex<'a> for WaveletMatrix\b"), wmx("inverse_select", r"impl<'a> VectorIndex<'a> for WaveletMatrix\b"),
    wmx("select", r"impl<'a> VectorIndex<'a> for WaveletMatrix\b"), wmx("get", r"impl<'a> Access<'a> for WaveletMatrix\b"),
    dict(file="wavelet_matrix.rs", impl=r"impl<'a> Iterator for ValueIter<'a>", fn="next", name="gen_ValueIter_next", self=VI_SELF,
         binders=["(w : WM)"], tyalias={"Self::Item": ("T", [U, U])},
         calls={"self.parent.len": dict(lean="w.len", ret=U, monadic=False),
                "self.parent.select": dict(lean="gen_WaveletMatrix_select m w {0} {1}", ret=("O", U))}),
    dict(file="ops.rs", impl=r"pub trait VectorIndex<'a>", fn="predecessor", name="gen_VectorIndex_predecessor", self=WMX_SELF, calls=WMX_CALLS,
         tyalias=WMX_ALIAS),
    dict(file="ops.rs", impl=r"pub trait VectorIndex<'a>", fn="successor", name="gen_VectorIndex_successor", self=WMX_SELF, calls=WMX_CALLS,
         tyalias=WMX_ALIAS),
]))


CALLS["RawVector::with_capacity"] = dict(lean="RawVec.empty", ret=RV, monadic=False, args=[U])
CALLS["RawVector::new"] = dict(lean="RawVec.empty", ret=RV, monadic=False)
CALLS["<RawVector>.push_int"] = dict(lean="gen_RawVector_push_int m {0} {1} {2}", ret=UNIT, mutrecv=True, monadic=True, args=[W, U])
INT_CALLS_MUT2 = dict(INT_CALLS_MUT, **{
    "self.data.pop_int": dict(lean="gen_RawVector_pop_int m self_data {0}", ret=("O", W), setvar="self_data", args=[U]),
    "self.data.clear": dict(lean="RawVec.clear self_data", ret=UNIT, monadic=False, setvar="self_data"),
})
GROUPS.append(("FnsVec2.lean", ["Sds.Model.IntVec", "Sds.Generated.FnsVec"], [
    dict(file="int_vector.rs", impl=r"impl IntVector\s", fn="new", name="gen_IntVector_new", tyalias=ITEM),
    dict(file="int_vector.rs", impl=r"impl IntVector\s", fn="with_len", name="gen_IntVector_with_len", tyalias=ITEM),
    dict(file="int_vector.rs", impl=r"impl Pop for IntVector\b", fn="pop", name="gen_IntVector_pop", self=dict(INT_SELF, mut=True),
         calls=INT_CALLS_MUT2, tyalias=ITEM),
    dict(file="int_vector.rs", impl=r"impl Resize for IntVector\b", fn="clear", name="gen_IntVector_clear", self=dict(INT_SELF, mut=True),
         calls=INT_CALLS_MUT2, tyalias=ITEM),
]))


# ---- bit_vector.rs: supports_* / enable_* (C19)
BVM_SELF = dict(BV_SELF, mut=True, order=["ones", "data", "rank", "select", "select_zero"])
BVM_CALLS = {
    "self.supports_rank": dict(lean="gen_BitVector_supports_rank m {self}", ret=B),
    "self.supports_select": dict(lean="gen_BitVector_supports_select m {self}", ret=B),
    "self.supports_select_zero": dict(lean="gen_BitVector_supports_select_zero m {self}", ret=B),
    "self.enable_rank": dict(lean="gen_BitVector_enable_rank m {self}", ret=UNIT, mutself=True),
    "self.enable_select": dict(lean="gen_BitVector_enable_select m {self}", ret=UNIT, mutself=True),
    # the support constructors are loops over the whole vector: outside the translated subset, named by their model functions
    "RankSupport::new": dict(lean="RankSup.build self_data", ret=("N", "RankSupport"), monadic=False, ignore_args=(0,)),
    "SelectSupport::<Identity>::new": dict(lean="SelSup.build self_data.len (positionsT .ident self_data)", ret=("N", "SelectI"), monadic=False, ignore_args=(0,)),
    "SelectSupport::<Complement>::new": dict(lean="SelSup.build self_data.len (positionsT .compl self_data)", ret=("N", "SelectC"), monadic=False, ignore_args=(0,)),
}
STRUCTS["BitVector"]["ctor_full"] = True


def bvm(fn, impl, mut):
    sf = dict(BVM_SELF, mut=mut)
    return dict(file="bit_vector.rs", impl=impl, fn=fn, name="gen_BitVector_" + fn, self=sf, calls=BVM_CALLS if mut else {}, tyalias=BV_ALIAS,
                self_ctor="({ ones := self_ones, data := self_data, rank := self_rank, select := self_select, selectZero := self_select_zero } : BitVector)")


GROUPS.append(("FnsEnable.lean", ["Sds.Model.BitVector", "Sds.Model.GenSupport"], [
    bvm("supports_rank", r"impl<'a> Rank<'a> for BitVector\b", False), bvm("supports_select", r"impl<'a> Select<'a> for BitVector\b", False),
    bvm("supports_select_zero", r"impl<'a> SelectZero<'a> for BitVector\b", False),
    bvm("supports_pred_succ", r"impl<'a> PredSucc<'a> for BitVector\b", False),
    bvm("enable_rank", r"impl<'a> Rank<'a> for BitVector\b", True), bvm("enable_select", r"impl<'a> Select<'a> for BitVector\b", True),
    bvm("enable_select_zero", r"impl<'a> SelectZero<'a> for BitVector\b", True),
    bvm("enable_pred_succ", r"impl<'a> PredSucc<'a> for BitVector\b", True),
]))


# ---- the read accessors of the mapped views (the mapped words are an array), count_ones of both raw vectors
def rawm(fn):
    d = raw(fn, r"impl<'a> AccessRaw for RawVectorMapper<'a>", False)
    d["name"] = "gen_RawVectorMapper_" + fn
    return d


GROUPS.append(("FnsView.lean", ["Sds.Model.IntVec", "Sds.Generated.FnsVec"], [
    rawm("bit"), rawm("int"), rawm("word"), rawm("word_unchecked"),
    dict(raw("count_ones", r"impl RawVector\s", False), name="gen_RawVector_count_ones", local_types={"result": U}),
    dict(raw("count_ones", r"impl<'a> RawVectorMapper<'a>", False), name="gen_RawVectorMapper_count_ones"),
    dict(file="int_vector.rs", impl=r"impl<'a> Access<'a> for IntVectorMapper<'a>", fn="get", name="gen_IntVectorMapper_get",
         self=dict(INT_SELF, mut=False), calls=dict(INT_CALLS_RO, **{"<RawVector>.int": dict(lean="gen_RawVectorMapper_int m {0} {1} {2}", ret=W)}),
         tyalias=ITEM),
]))


# ---- writers (C12): `flush` and `write_header` touch the file and are named by their model functions (Model/WriterGlue)
LW = ("N", "WordList")
STRUCTS["WordList"] = dict(lean="(List Word)", ctor=None, fields={}, fieldmap={})
STRUCTS["Budget"] = dict(lean="(Option Nat)", ctor=None, fields={}, fieldmap={})
RWR_SELF = dict(lean="RawWriter", var="w", rust="RawVectorWriter", mut=True,
                order=["len", "buf_len", "buf", "file", "userHeader", "header", "body", "budget"],
                fields={"len": ("len", U), "buf_len": ("bufLen", U), "buf": ("buf", RV), "file": ("isOpen", B),
                        "userHeader": ("userHeader", LW), "header": ("header", LW), "body": ("body", LW), "budget": ("budget", ("N", "Budget"))})
RWR_CALLS = {
    "self.is_open": dict(lean="self_file", ret=B, monadic=False),
    "self.buf.push_bit": dict(lean="gen_RawVector_push_bit m self_buf {0}", ret=UNIT, setvar="self_buf", args=[B]),
    "self.buf.push_int": dict(lean="gen_RawVector_push_int m self_buf {0} {1}", ret=UNIT, setvar="self_buf", args=[W, U]),
    "self.flush": dict(lean="ok (RawWriter.flushG {self} {0})", ret="R", mutself=True),
    "self.write_header": dict(lean="ok (RawWriter.writeHeaderG {self} ({0}).toList)", ret="R", mutself=True, args=[A]),
    "self.close_with_header": dict(lean="gen_RawVectorWriter_close_with_header_flag m {self} {0}", ret="R", mutself=True, args=[A]),
    "Vec::new": dict(lean="(#[] : Array Word)", ret=A, monadic=False),
}
RWR_PATHS = {"FlushMode::Safe": ("FlushMode.safe", ("N", "FlushMode")), "FlushMode::Final": ("FlushMode.final", ("N", "FlushMode"))}
STRUCTS["FlushMode"] = dict(lean="FlushMode", ctor=None, fields={}, fieldmap={})


def rwr(fn, impl, **kw):
    return dict(dict(file="raw_vector.rs", impl=impl, fn=fn, name="gen_RawVectorWriter_" + fn, self=RWR_SELF, calls=RWR_CALLS, paths=RWR_PATHS,
                     assign_override={"self.file": ("self_file", "false")}), **kw)


IWR_SELF = dict(lean="IntWriter", var="w", rust="IntVectorWriter", mut=True, order=["len", "width", "writer"],
                fields={"len": ("len", U), "width": ("width", U), "writer": ("writer", ("N", "RawVectorWriter"))})
STRUCTS["RawVectorWriter"] = dict(lean="RawWriter", ctor=None, fields={}, fieldmap={})
IWR_CALLS = {
    "self.width": dict(lean="self_width", ret=U, monadic=False),
    "self.writer.push_int": dict(lean="gen_RawVectorWriter_push_int m self_writer {0} {1}", ret=UNIT, setvar="self_writer", args=[W, U]),
    "self.writer.close_with_header": dict(lean="gen_RawVectorWriter_close_with_header_flag m self_writer {0}", ret="R", setvar="self_writer", args=[A]),
}
WRITER_EPILOGUE = '''
/-- `close_with_header` as its callers see it: the success flag of its `io::Result<()>` and the new state -/
def gen_RawVectorWriter_close_with_header_flag (m : Mode) (w : RawWriter) (header : Array Word) : Outcome (Bool × RawWriter) :=
  match gen_RawVectorWriter_close_with_header m w header with
  | .ok w' => ok (true, w')
  | .fault (.err _) => ok (false, w)
  | .fault f => fault f
'''
GROUPS.append(("FnsWriter.lean", ["Sds.Model.WriterGlue", "Sds.Generated.FnsVec"], [
    rwr("push_bit", r"impl PushRaw for RawVectorWriter\b"), rwr("push_int", r"impl PushRaw for RawVectorWriter\b"),
    rwr("close_with_header", r"impl RawVectorWriter\s", after=WRITER_EPILOGUE), rwr("close", r"impl RawVectorWriter\s"),
    dict(file="int_vector.rs", impl=r"impl Push for IntVectorWriter\b", fn="push", name="gen_IntVectorWriter_push", self=IWR_SELF,
         calls=IWR_CALLS, tyalias=ITEM),
    dict(file="int_vector.rs", impl=r"impl IntVectorWriter\s", fn="close", name="gen_IntVectorWriter_close", self=IWR_SELF, calls=IWR_CALLS),
]))
# a callee that returns io::Result<()> is seen by its callers as (success flag, new state); this wrapper is emitted after
# the translated `close_with_header` (whose own errors are outcomes)



# ---- sparse_vector.rs: the iterator over set bits and the constructors of it
SPI_SELF = dict(lean="SpOneIter", var="it", rust="OneIter", mut=True, order=["next", "limit"],
                fields={"next": ("next", ("N", "Pos")), "limit": ("limit", ("N", "Pos"))})
SPI_CALLS = {"self.parent.high.get": dict(lean="BitVector.get s.high {0}", ret=B),
             "self.parent.combine": dict(lean="gen_SparseVector_combine m s {0}", ret=("T", [U, U]))}


def spi(fn, impl, mut=True):
    return dict(file="sparse_vector.rs", impl=impl, fn=fn, name="gen_SparseOneIter_" + fn, self=dict(SPI_SELF, mut=mut), calls=SPI_CALLS,
                binders=["(s : Sparse)"], fuel=["s.high.len + 1"], tyalias={"Self::Item": ("T", [U, U])})


SP_ITER_CALLS = dict(SP_LOOP_CALLS, **{"self.pos": dict(lean="gen_SparseVector_pos m s {0}", ret=("N", "Pos")),
                                       "<IntVector>.len": dict(lean="{0}.len", ret=U, monadic=False)})
GROUPS.append(("FnsSpIter.lean", ["Sds.Model.Sparse", "Sds.Generated.FnsIdx"], [
    spi("next", r"impl<'a> Iterator for OneIter<'a>"), spi("size_hint", r"impl<'a> Iterator for OneIter<'a>", mut=False),
    spi("next_back", r"impl<'a> DoubleEndedIterator for OneIter<'a>"),
    dict(file="sparse_vector.rs", impl=r"impl<'a> Select<'a> for SparseVector\b", fn="one_iter", name="gen_SparseVector_one_iter",
         self=dict(SPARSE_SELF, rust="SparseVector"), calls=SP_ITER_CALLS, tyalias={"Self::OneIter": ("N", "SpOneIter")},
         structs_over={"OneIter": SP_ITER_STRUCT}),
    dict(file="sparse_vector.rs", impl=r"impl<'a> Select<'a> for SparseVector\b", fn="select_iter", name="gen_SparseVector_select_iter",
         self=dict(SPARSE_SELF, rust="SparseVector"), calls=SP_ITER_CALLS, tyalias={"Self::OneIter": ("N", "SpOneIter")},
         structs_over={"OneIter": SP_ITER_STRUCT}),
]))


# ---- sparse_vector.rs: find_zero_run (binary search + `while let` scan), select_zero, the iterator over unset bits
SPO = ("N", "SpOneIter")
CALLS["<SpOneIter>.next"] = dict(lean="gen_SparseOneIter_next m s {0}", ret=("O", ("T", [U, U])), mutrecv=True, monadic=True)
SP_Z_CALLS = dict(SP_ITER_CALLS, **{
    "self.one_iter": dict(lean="gen_SparseVector_one_iter m s", ret=SPO),
    "self.select_iter": dict(lean="gen_SparseVector_select_iter m s {0}", ret=SPO),
    "self.count_zeros": dict(lean="gen_SparseVector_count_zeros m s", ret=U),
    "self.find_zero_run": dict(lean="gen_SparseVector_find_zero_run m s {0}", ret=("T", [U, SPO])),
    "Self::ZeroIter::empty_iter": dict(lean="SpZeroIter.emptyIter {0}", ret=("N", "SpZeroIter"), monadic=False),
})
STRUCTS["SpZeroIter"] = dict(lean="SpZeroIter", ctor=None, fields={}, fieldmap={})
SPZ_STRUCT = dict(lean="SpZeroIter", ctor=lambda v: "(⟨%s, %s, %s, %s⟩ : SpZeroIter)" % (v["iter"], v["one_pos"], v["next"], v["limit"]),
                  fields={"iter": SPO, "one_pos": U, "next": ("T", [U, U]), "limit": ("T", [U, U])}, fieldmap={})


def spz(fn, impl, fuel=(), ret=None):
    d = dict(file="sparse_vector.rs", impl=impl, fn=fn, name="gen_SparseVector_" + fn, self=dict(SPARSE_SELF, rust="SparseVector"),
             calls=SP_Z_CALLS, fuel=list(fuel), tyalias={"Self::ZeroIter": ("N", "SpZeroIter"), "OneIter": SPO},
             structs_over={"ZeroIter": SPZ_STRUCT, "OneIter": SP_ITER_STRUCT})
    if ret is not None:
        d["ret"] = ret
    return d


SPZI_SELF = dict(lean="SpZeroIter", var="z", rust="ZeroIter", mut=True, order=["iter", "one_pos", "next", "limit"],
                 fields={"iter": ("iter", SPO), "one_pos": ("onePos", U), "next": ("next", ("T", [U, U])), "limit": ("limit", ("T", [U, U]))})
SPZI_CALLS = {"self.iter.next": dict(lean="gen_SparseOneIter_next m s self_iter", ret=("O", ("T", [U, U])), setvar="self_iter"),
              "self.next_run": dict(lean="gen_SparseZeroIter_next_run m s {self}", ret=UNIT, mutself=True)}


def spzi(fn, impl, fuel=(), mut=True):
    return dict(file="sparse_vector.rs", impl=impl, fn=fn, name="gen_SparseZeroIter_" + fn, self=dict(SPZI_SELF, mut=mut), calls=SPZI_CALLS,
                binders=["(s : Sparse)"], fuel=list(fuel), tyalias={"Self::Item": ("T", [U, U])})


GROUPS.append(("FnsSpZero.lean", ["Sds.Model.Sparse", "Sds.Generated.FnsSpIter", "Sds.Generated.FnsLoop"], [
    spz("find_zero_run", r"impl SparseVector\s", ["70", "Sparse.countOnes s + 2"], ret=("T", [U, SPO])),
    spz("select_zero", r"impl<'a> SelectZero<'a> for SparseVector\b"),
    spz("zero_iter", r"impl<'a> SelectZero<'a> for SparseVector\b"),
    spz("select_zero_iter", r"impl<'a> SelectZero<'a> for SparseVector\b"),
    spzi("next_run", r"impl<'a> ZeroIter<'a>", ["Sparse.countOnes s + 2"]),
    spzi("next", r"impl<'a> Iterator for ZeroIter<'a>"),
    spzi("size_hint", r"impl<'a> Iterator for ZeroIter<'a>", mut=False),
]))


# ---- sparse_vector.rs: the iterator over all bits (two-ended, skipping duplicates) and its constructor
CALLS["<SpOneIter>.next_back"] = dict(lean="gen_SparseOneIter_next_back m s {0}", ret=("O", ("T", [U, U])), mutrecv=True, monadic=True)
SPA_SELF = dict(lean="SpIter", var="it", rust="Iter", mut=True, order=["parent", "next", "next_set", "limit", "last_set"],
                fields={"parent": ("parent", SPO), "next": ("next", U), "next_set": ("nextSet", ("O", U)), "limit": ("limit", U),
                        "last_set": ("lastSet", ("O", U))})
SPA_CALLS = {"self.parent.next": dict(lean="gen_SparseOneIter_next m s self_parent", ret=("O", ("T", [U, U])), setvar="self_parent"),
             "self.parent.next_back": dict(lean="gen_SparseOneIter_next_back m s self_parent", ret=("O", ("T", [U, U])), setvar="self_parent")}
SPA_STRUCT = dict(lean="SpIter", ctor=lambda v: "(⟨%s, %s, %s, %s, %s⟩ : SpIter)" % (v["parent"], v["next"], v["next_set"], v["limit"], v["last_set"]),
                  fields={"parent": SPO, "next": U, "next_set": ("O", U), "limit": U, "last_set": ("O", U)}, fieldmap={})
STRUCTS["SpIter"] = dict(lean="SpIter", ctor=None, fields={}, fieldmap={})


def spa(fn, impl, fuel=(), mut=True):
    return dict(file="sparse_vector.rs", impl=impl, fn=fn, name="gen_SparseIter_" + fn, self=dict(SPA_SELF, mut=mut), calls=SPA_CALLS,
                binders=["(s : Sparse)"], fuel=list(fuel), tyalias={"Self::Item": B})


GROUPS.append(("FnsSpAll.lean", ["Sds.Model.Sparse", "Sds.Generated.FnsSpIter"], [
    spa("next", r"impl<'a> Iterator for Iter<'a>", ["Sparse.countOnes s + 2"]),
    spa("size_hint", r"impl<'a> Iterator for Iter<'a>", mut=False),
    spa("next_back", r"impl<'a> DoubleEndedIterator for Iter<'a>", ["Sparse.countOnes s + 2"]),
    dict(file="sparse_vector.rs", impl=r"impl<'a> BitVec<'a> for SparseVector\b", fn="iter", name="gen_SparseVector_iter",
         self=dict(SPARSE_SELF, rust="SparseVector"), calls=SP_Z_CALLS, tyalias={"Self::Iter": ("N", "SpIter")},
         structs_over={"Iter": SPA_STRUCT}),
]))


# ---- rl_vector.rs: the run iterator, the block lookups, the queries and the three derived iterators
RUNIT = ("N", "RunIter")
STRUCTS["RunIter"] = dict(lean="RunIter", ctor=lambda v: "(⟨%s, %s, %s⟩ : RunIter)" % (v["offset"], v["pos"], v["limit"]),
                          fields={"parent": "SKIP", "offset": U, "pos": ("T", [U, U]), "limit": U}, fieldmap={})
STRUCTS["RLVector"] = dict(lean="RL", ctor=None, fields={"data": IV, "samples": IV, "len": U, "ones": U}, fieldmap={})
RLV_T = ("N", "RLVector")
PAIR = ("T", [U, U])
RL_TYPED = {
    "<RunIter>.next": dict(lean="gen_RunIter_next m v {0}", ret=("O", PAIR), mutrecv=True, monadic=True),
    "<RunIter>.rank": dict(lean="{0}.pos.1", ret=U, monadic=False),
    "<RunIter>.offset": dict(lean="{0}.pos.2", ret=U, monadic=False),
    "<RunIter>.rank_zero": dict(lean="gen_RunIter_rank_zero m v {0}", ret=U),
    "<RunIter>.offset_for": dict(lean="gen_RunIter_offset_for m v {0} {1}", ret=U),
    "<RunIter>.rank_at": dict(lean="gen_RunIter_rank_at m v {0} {1}", ret=U),
    "<RLVector>.count_ones": dict(lean="{0}.ones", ret=U, monadic=False),
    "<RLVector>.len": dict(lean="{0}.len", ret=U, monadic=False),
    "<SampleIndex>.range": dict(lean="gen_SampleIndex_range m {0} {1}", ret=PAIR),
    "RunIter::empty_iter": dict(lean="gen_RunIter_empty_iter m v {0}", ret=RUNIT),
    "cmp::min": dict(lean="min {0} {1}", ret=U, monadic=False, args=[U, U]),
}
RUNIT_SELF = dict(lean="RunIter", var="it", rust="RunIter", order=["offset", "pos", "limit"],
                  fields={"offset": ("offset", U), "pos": ("pos", PAIR), "limit": ("limit", U)})
RUN_MUT = dict(RL_TYPED, **{
    "self.offset": dict(lean="self_pos.2", ret=U, monadic=False), "self.rank": dict(lean="self_pos.1", ret=U, monadic=False),
    "self.parent.data.len": dict(lean="v.data.len", ret=U, monadic=False),
    "self.parent.blocks": dict(lean="gen_RLVector_blocks m v", ret=U),
    "self.parent.ones_after": dict(lean="gen_RLVector_ones_after m v {0}", ret=U),
    "self.parent.decode": dict(lean="gen_RLVector_decode m v {0}", ret=PAIR),
    "advance": dict(lean="advance {0}", ret=B, monadic=False, args=[("O", PAIR)]),
    "self.advance_if": dict(lean="gen_RunIter_advance_if m v {self} {0}", ret=("O", PAIR), mutself=True, args=["FP"]),
})
RUN_RO = dict(RL_TYPED, **{
    "self.offset": dict(lean="it.pos.2", ret=U, monadic=False), "self.rank": dict(lean="it.pos.1", ret=U, monadic=False)})


def runit(fn, mut, **kw):
    return dict(dict(file="rl_vector.rs", impl=r"impl<'a> RunIter<'a>\s", fn=fn, name="gen_RunIter_" + fn, self=dict(RUNIT_SELF, mut=mut),
                     calls=RUN_MUT if mut else RUN_RO, binders=["(v : RL)"], tyalias={"<Self as Iterator>::Item": PAIR, "<SelfasIterator>::Item": PAIR,
                                                                                      "Self": RUNIT, "Self::Item": PAIR}), **kw)


RLQ_CALLS = dict(RLV_CALLS, **RL_TYPED)
RLQ_CALLS.update({
    "self.len": dict(lean="v.len", ret=U, monadic=False), "self.is_empty": dict(lean="decide (v.len = 0)", ret=B, monadic=False),
    "self.count_zeros": dict(lean="gen_RLVector_count_zeros m v", ret=U),
    "self.iter_for_block": dict(lean="gen_RLVector_iter_for_block m v {0}", ret=RUNIT),
    "self.iter_for_bit": dict(lean="gen_RLVector_iter_for_bit m v {0}", ret=RUNIT),
    "self.iter_for_one": dict(lean="gen_RLVector_iter_for_one m v {0}", ret=RUNIT),
    "self.iter_for_zero": dict(lean="gen_RLVector_iter_for_zero m v {0}", ret=RUNIT),
    "self.run_iter": dict(lean="gen_RLVector_run_iter m v", ret=RUNIT),
    "Self::block_for": dict(lean="gen_RLVector_block_for m {0} {1} {2} {3}", ret=U, args=[U, U, U, "FM"]),
    "Self::OneIter::empty_iter": dict(lean="RLOneIter.emptyIter {0}", ret=("N", "RLOneIter"), monadic=False),
})
STRUCTS["RLOneIter"] = dict(lean="RLOneIter", ctor=None, fields={}, fieldmap={})
STRUCTS["RLZeroIter"] = dict(lean="RLZeroIter", ctor=None, fields={}, fieldmap={})
STRUCTS["RLIter"] = dict(lean="RLIter", ctor=None, fields={}, fieldmap={})
RL_ONE_STRUCT = dict(lean="RLOneIter", ctor=lambda v: "(⟨%s, %s, %s⟩ : RLOneIter)" % (v["iter"], v["got_none"], v["rank"]),
                     fields={"iter": RUNIT, "got_none": B, "rank": U}, fieldmap={})
RL_ZERO_STRUCT = dict(lean="RLZeroIter", ctor=lambda v: "(⟨%s, %s, %s⟩ : RLZeroIter)" % (v["iter"], v["got_none"], v["pos"]),
                      fields={"iter": RUNIT, "got_none": B, "pos": PAIR}, fieldmap={})
RL_ALL_STRUCT = dict(lean="RLIter", ctor=lambda v: "(⟨%s, %s, %s⟩ : RLIter)" % (v["iter"], v["run"], v["pos"]),
                     fields={"iter": RUNIT, "run": ("O", PAIR), "pos": U}, fieldmap={})
RLQ_ALIAS = {"Self::OneIter": ("N", "RLOneIter"), "Self::ZeroIter": ("N", "RLZeroIter"), "Self::Iter": ("N", "RLIter")}
RLQ_STRUCTS = {"OneIter": RL_ONE_STRUCT, "ZeroIter": RL_ZERO_STRUCT, "Iter": RL_ALL_STRUCT}


def rlq(fn, impl, fuel=(), **kw):
    return dict(dict(file="rl_vector.rs", impl=impl, fn=fn, name="gen_RLVector_" + fn, self=dict(RLV_SELF, rust="RLVector"), calls=RLQ_CALLS,
                     fuel=list(fuel), tyalias=RLQ_ALIAS, structs_over=RLQ_STRUCTS), **kw)


def rlit(prefix, self_cfg, fn, impl, extra_calls, **kw):
    calls = dict(RL_TYPED, **extra_calls)
    return dict(dict(file="rl_vector.rs", impl=impl, fn=fn, name="gen_%s_%s" % (prefix, fn), self=self_cfg, calls=calls, binders=["(v : RL)"],
                     tyalias={"Self::Item": PAIR}), **kw)


RLO_SELF = dict(lean="RLOneIter", var="it", rust="OneIter", mut=True, order=["iter", "got_none", "rank"],
                fields={"iter": ("iter", RUNIT), "got_none": ("gotNone", B), "rank": ("rank", U)})
RLZ_SELF = dict(lean="RLZeroIter", var="z", rust="ZeroIter", mut=True, order=["iter", "got_none", "pos"],
                fields={"iter": ("iter", RUNIT), "got_none": ("gotNone", B), "pos": ("pos", PAIR)})
RLA_SELF = dict(lean="RLIter", var="it", rust="Iter", mut=True, order=["iter", "run", "pos"],
                fields={"iter": ("iter", RUNIT), "run": ("run", ("O", PAIR)), "pos": ("pos", U)})
RLI_CALLS = {
    "self.iter.rank": dict(lean="self_iter.pos.1", ret=U, monadic=False),
    "self.iter.offset": dict(lean="self_iter.pos.2", ret=U, monadic=False),
    "self.iter.rank_zero": dict(lean="gen_RunIter_rank_zero m v self_iter", ret=U),
    "self.iter.offset_for": dict(lean="gen_RunIter_offset_for m v self_iter {0}", ret=U),
    "self.iter.next": dict(lean="gen_RunIter_next m v self_iter", ret=("O", PAIR), setvar="self_iter"),
    "self.iter.parent.count_ones": dict(lean="v.ones", ret=U, monadic=False),
    "self.iter.parent.count_zeros": dict(lean="gen_RLVector_count_zeros m v", ret=U),
    "self.iter.parent.len": dict(lean="v.len", ret=U, monadic=False),
}
RLI_CALLS_RO = dict(RLI_CALLS, **{"self.iter.parent.count_ones": dict(lean="v.ones", ret=U, monadic=False)})
OPS_BV_SELF = dict(RLV_SELF, rust="RLVector")
IMPL_RUNIT_ITER = r"impl<'a> Iterator for RunIter<'a>"
GROUPS.append(("FnsRL.lean", ["Sds.Model.RL", "Sds.Generated.FnsLoop"], [
    dict(file="ops.rs", impl=r"pub trait BitVec<'a>", fn="count_zeros", name="gen_RLVector_count_zeros", self=OPS_BV_SELF,
         calls={"self.len": dict(lean="v.len", ret=U, monadic=False), "self.count_ones": dict(lean="v.ones", ret=U, monadic=False)}),
    runit("offset", False), runit("rank", False), runit("rank_zero", False), runit("offset_for", False), runit("rank_at", False),
    dict(file="rl_vector.rs", impl=r"impl<'a> RunIter<'a>\s", fn="empty_iter", name="gen_RunIter_empty_iter", calls=RL_TYPED, binders=["(v : RL)"],
         params={"parent": ("(parent : RL)", RLV_T, "parent")}, tyalias={"Self": RUNIT}, ret=RUNIT),
    runit("advance_if", True, params={"advance": ("(advance : Option (Nat × Nat) → Bool)", "FP", "advance")}, ret=("O", PAIR)),
    dict(runit("next", True), impl=IMPL_RUNIT_ITER),
    rlq("iter_for_bit", r"impl RLVector\s"), rlq("iter_for_one", r"impl RLVector\s"), rlq("iter_for_zero", r"impl RLVector\s"),
    rlq("get", r"impl<'a> BitVec<'a> for RLVector\b", ["v.data.len + 2"]),
    rlq("iter", r"impl<'a> BitVec<'a> for RLVector\b"),
    rlq("rank", r"impl<'a> Rank<'a> for RLVector\b", ["v.data.len + 2"]),
    rlq("one_iter", r"impl<'a> Select<'a> for RLVector\b"),
    rlq("select", r"impl<'a> Select<'a> for RLVector\b", ["v.data.len + 2"]),
    rlq("select_iter", r"impl<'a> Select<'a> for RLVector\b", ["v.data.len + 2"]),
    rlq("zero_iter", r"impl<'a> SelectZero<'a> for RLVector\b"),
    rlq("select_zero", r"impl<'a> SelectZero<'a> for RLVector\b", ["v.data.len + 2"]),
    rlq("select_zero_iter", r"impl<'a> SelectZero<'a> for RLVector\b", ["v.data.len + 2"]),
    rlq("successor", r"impl<'a> PredSucc<'a> for RLVector\b", ["v.data.len + 2"]),
    rlit("RLOneIter", RLO_SELF, "next", r"impl<'a> Iterator for OneIter<'a>", RLI_CALLS),
    rlit("RLOneIter", dict(RLO_SELF, mut=False), "size_hint", r"impl<'a> Iterator for OneIter<'a>", {"self.iter.parent.count_ones": dict(lean="v.ones", ret=U, monadic=False)}),
    rlit("RLZeroIter", RLZ_SELF, "next", r"impl<'a> Iterator for ZeroIter<'a>", RLI_CALLS),
    rlit("RLZeroIter", dict(RLZ_SELF, mut=False), "size_hint", r"impl<'a> Iterator for ZeroIter<'a>",
         {"self.iter.parent.count_zeros": dict(lean="gen_RLVector_count_zeros m v", ret=U)}),
    rlit("RLIter", RLA_SELF, "next", r"impl<'a> Iterator for Iter<'a>", RLI_CALLS, tyalias={"Self::Item": B}),
    rlit("RLIter", dict(RLA_SELF, mut=False), "size_hint", r"impl<'a> Iterator for Iter<'a>", {"self.iter.parent.len": dict(lean="v.len", ret=U, monadic=False)},
         tyalias={"Self::Item": B}),
]))


# ---- constructions: RankSupport::new (two nested `for` loops), SampleIndex::new (an iterator consumed with `next`, a `for`
# with an inner `while`; the iterator is the list of its remaining items)
LISTIT = ("N", "ListIter")
STRUCTS["ListIter"] = dict(lean="(List Nat)", ctor=None, fields={}, fieldmap={})
STRUCTS["SampleIndex"] = dict(lean="SampleIndex", ctor=lambda v: "(⟨%s, %s, %s⟩ : SampleIndex)" % (v["num_values"], v["divisor"], v["samples"]),
                              fields={"num_values": U, "divisor": U, "samples": IV}, fieldmap={})
CONSTR_CALLS = {
    "parent.len": dict(lean="parent.len", ret=U, monadic=False),
    "parent.data.word": dict(lean="RawVec.wordM parent {0}", ret=W),
    "Vec::with_capacity": dict(lean="(#[] : Array (Word × Word))", ret=SAMPLES_T, monadic=False, args=[U]),
    "<SamplesVec>.push": dict(lean="{0}.push {1}", ret=UNIT, mutrecv=True, args=[("T", [W, W])]),
    "cmp::min": dict(lean="min {0} {1}", ret=U, monadic=False, args=[U, U]),
    "<ListIter>.len": dict(lean="{0}.length", ret=U, monadic=False),
    "<ListIter>.next": dict(lean="({0}.head?, {0}.tail)", ret=("O", U), mutrecv=True),
    "Self::parameters": dict(lean="gen_SampleIndex_parameters m {0} {1}", ret=("T", [U, U])),
    "IntVector::with_len": dict(lean="gen_IntVector_with_len m {0} {1} {2}", ret=IV, result=True, args=[U, U, W]),
    "<IntVector>.set": dict(lean="gen_IntVector_set m {0} {1} {2}", ret=UNIT, mutrecv=True, monadic=True, args=[U, W]),
}
GROUPS.append(("FnsConstr.lean", ["Sds.Model.RL", "Sds.Model.BitVector", "Sds.Generated.FnsIdx", "Sds.Generated.FnsVec2"], [
    dict(file="bit_vector/rank_support.rs", impl=r"impl RankSupport\b", fn="new", name="gen_RankSupport_new", calls=CONSTR_CALLS,
         params=RANK_PARAMS, tyalias={"Vec": SAMPLES_T}, ret=("N", "RankSupport")),
    dict(file="rl_vector/index.rs", impl=r"impl SampleIndex\b", fn="new", name="gen_SampleIndex_new", calls=CONSTR_CALLS,
         params={"iter": ("(iter : List Nat)", LISTIT, "iter")}, ret=("N", "SampleIndex"), tyalias={"Self": ("N", "SampleIndex")},
         fuel=["-", "len + 1"]),
]))


# ---- constructions, part 2: IntVector::pack (max over the items, re-push at the new width), SelectSupport::new (two
# `OneIter`s over the parent — each the list of its remaining (rank, position) pairs: `next` = head / tail, `nth(k)` = drop k
# then head / tail — a `while sample != None` with a `match`, two `for _ in 0..n` loops pushing into `long` / `short`)
PAIRIT = ("N", "PairListIter")
STRUCTS["PairListIter"] = dict(lean="(List (Nat × Nat))", ctor=None, fields={}, fieldmap={})
PACK_CALLS = {
    "self.is_empty": dict(lean="decide (self_len = 0)", ret=B, monadic=False),
    "self.len": dict(lean="self_len", ret=U, monadic=False),
    "self.width": dict(lean="self_width", ret=U, monadic=False),
    "<IntVector>.max": dict(lean="maxByGet {0}.len (fun i => gen_IntVector_get m {0} i)", ret=("O", W)),
    "self.iter": dict(lean="(⟨self_len, self_width, self_data⟩ : IntVec)", ret=IV, monadic=False),
    "RawVector::with_capacity": dict(lean="(⟨0, #[]⟩ : RawVec)", ret=("N", "RawVector"), monadic=False, args=[U]),
    "<RawVector>.push_int": dict(lean="gen_RawVector_push_int m {0} {1} {2}", ret=UNIT, mutrecv=True, monadic=True, args=[W, U]),
}
SELNEW_CALLS = {
    "T::count_ones": dict(lean="ones", ret=U, monadic=False, ignore_args=(0,)),
    "T::one_iter": dict(lean="items", ret=PAIRIT, monadic=False, ignore_args=(0,)),
    "parent.len": dict(lean="len", ret=U, monadic=False),
    "IntVector::default": dict(lean="IntVec.default", ret=IV, monadic=False),
    "<IntVector>.reserve": dict(lean="{0}", ret=UNIT, mutrecv=True, args=[U]),
    "<IntVector>.push": dict(lean="gen_IntVector_push m {0} {1}", ret=UNIT, mutrecv=True, monadic=True, args=[W]),
    "<IntVector>.pack": dict(lean="gen_IntVector_pack m {0}", ret=UNIT, mutrecv=True, monadic=True),
    "<IntVector>.len": dict(lean="{0}.len", ret=U, monadic=False),
    "<PairListIter>.next": dict(lean="({0}.head?, {0}.tail)", ret=("O", PAIR), mutrecv=True),
    "<PairListIter>.nth": dict(lean="(({0}.drop {1}).head?, {0}.drop ({1} + 1))", ret=("O", PAIR), mutrecv=True, args=[U]),
}
GROUPS.append(("FnsConstr2.lean", ["Sds.Model.BitVector", "Sds.Model.Sparse", "Sds.Generated.FnsVec", "Sds.Generated.FnsBits"], [
    dict(file="int_vector.rs", impl=r"impl Pack for IntVector\b", fn="pack", name="gen_IntVector_pack", self=dict(INT_SELF, mut=True, rust="IntVector"), calls=PACK_CALLS),
    dict(file="bit_vector/select_support.rs", impl=r"impl<T: Transformation> SelectSupport<T>", fn="new", name="gen_SelectSupport_new", calls=SELNEW_CALLS,
         params={"parent": ("(len ones : Nat) (items : List (Nat × Nat))", ("N", "ParentBitVector"), "parent")},
         ret=("N", "SelectSupport"), fuel=["items.length + 1"], ignore_fields=["_marker"]),
]))


# ---- constructions, part 3: RawVector::{new, with_len}, BitVector::from(RawVector), the sparse builder's constructors
# (`get_params` with its floating-point width rule replaced by the NAMED parameter `fw`: the model is parametric in the
# low width too) and `SparseVector::try_from(builder)`.  The builder is the Rust layout `SparseBuilderR` (Model/GenStructs.lean:
# `data : Sparse`, `high : RawVec`, counters), related to the model's flat builder by `SparseBuilderR.toModel`.
SPBR = ("N", "SparseBuilder")
SPBR_STRUCT = dict(lean="SparseBuilderR", ctor=lambda v: "(⟨%s, %s, %s, %s, %s⟩ : SparseBuilderR)" % (v["data"], v["high"], v["len"], v["next"], v["increment"]),
                   fields={"data": ("N", "SparseVector"), "high": RV, "len": U, "next": U, "increment": U}, fieldmap={})
CONSTR3_CALLS = {
    "RawVector::default": dict(lean="RawVec.empty", ret=RV, monadic=False),
    "self.clone": dict(lean="v", ret=RV, monadic=False),
    "RawVector::new": dict(lean="gen_RawVector_new m", ret=RV),
    "RawVector::with_len": dict(lean="gen_RawVector_with_len m {0} {1}", ret=RV, args=[U, B]),
    "bits::filler_value": dict(lean="gen_filler_value m {0}", ret=W, args=[B]),
    "bits::bits_to_words": dict(lean="gen_bits_to_words m {0}", ret=U, args=[U]),
    "<RawVector>.set_unused_bits": dict(lean="gen_RawVector_set_unused_bits m {0} {1}", ret=UNIT, mutrecv=True, monadic=True, args=[B]),
    "<RawVector>.count_ones": dict(lean="gen_RawVector_count_ones m {0}", ret=U),
    "BitVector::from": dict(lean="gen_BitVector_from_raw m {0}", ret=BV, args=[RV]),
    "Self::get_params": dict(lean="gen_SparseBuilder_get_params m fw {0} {1}", ret=("T", [U, U]), args=[U, U]),
    "Self::get_buckets": dict(lean="gen_SparseBuilder_get_buckets m {0} {1}", ret=U, args=[U, U]),
    "IntVector::with_len": dict(lean="gen_IntVector_with_len m {0} {1} {2}", ret=IV, result=True, args=[U, U, W]),
    "<SparseBuilder>.is_full": dict(lean="gen_SparseBuilder_is_full m {0}.toModel", ret=B),
    "<BitVector>.enable_select": dict(lean="gen_BitVector_enable_select m {0}", ret=UNIT, mutrecv=True, monadic=True),
    "<BitVector>.enable_select_zero": dict(lean="gen_BitVector_enable_select_zero m {0}", ret=UNIT, mutrecv=True, monadic=True),
}
GROUPS.append(("FnsConstr3.lean", ["Sds.Model.GenStructs", "Sds.Generated.FnsVec", "Sds.Generated.FnsVec2", "Sds.Generated.FnsView", "Sds.Generated.FnsIdx",
                                   "Sds.Generated.FnsBuild", "Sds.Generated.FnsEnable"], [
    dict(file="raw_vector.rs", impl=r"impl RawVector\b", fn="new", name="gen_RawVector_new", calls=CONSTR3_CALLS),
    dict(file="raw_vector.rs", impl=r"impl RawVector\b", fn="with_len", name="gen_RawVector_with_len", calls=CONSTR3_CALLS),
    dict(file="raw_vector.rs", impl=r"impl RawVector\b", fn="complement", name="gen_RawVector_complement", calls=CONSTR3_CALLS,
         self=dict(lean="RawVec", var="v", rust="RawVector", mut=False, fields={"len": ("len", U), "data": ("data", A)}, order=["len", "data"])),
    dict(file="bit_vector.rs", impl=r"impl From<RawVector> for BitVector\b", fn="from", name="gen_BitVector_from_raw", calls=CONSTR3_CALLS,
         tyalias={"Self": BV}),
    dict(file="sparse_vector.rs", impl=r"impl SparseBuilder\b", fn="get_params", name="gen_SparseBuilder_get_params", calls=CONSTR3_CALLS,
         binders=["(fw : Nat)"],
         source_subst=[(r"let\s+ideal_width\s*=\s*\(\(universe as f64 \* 2\.0_f64\.ln\(\)\) / \(ones as f64\)\)\.log2\(\);\s*low_width\s*=\s*ideal_width\.max\(1\.0\)\.round\(\) as usize;",
                        "low_width = fw;")],
         params_extra={"fw": ("fw", U)}),
    dict(file="sparse_vector.rs", impl=r"impl SparseBuilder\b", fn="new", name="gen_SparseBuilder_new", calls=CONSTR3_CALLS,
         binders=["(fw : Nat)"], structs_over={"SparseBuilder": SPBR_STRUCT}, ret=SPBR),
    dict(file="sparse_vector.rs", impl=r"impl SparseBuilder\b", fn="multiset", name="gen_SparseBuilder_multiset", calls=CONSTR3_CALLS,
         binders=["(fw : Nat)"], structs_over={"SparseBuilder": SPBR_STRUCT}, ret=SPBR),
    dict(file="sparse_vector.rs", impl=r"impl TryFrom<SparseBuilder> for SparseVector\b", fn="try_from", name="gen_SparseVector_try_from", calls=CONSTR3_CALLS,
         structs_over={"SparseBuilder": SPBR_STRUCT}, tyalias={"Self": ("N", "SparseVector")}, ret=("N", "SparseVector")),
]))


# ---- constructions, part 4: the run-length vector from its builder — `RLBuilder::{default, encode}`, `IntVector::with_capacity`,
# `RawVector::with_capacity`, `impl From<RLBuilder> for RLVector` (flush, the three sample indexes over `samples.iter().map(..)`
# — each the list of its items —, the compressed samples)
STRUCTS["RLBuilder"] = dict(lean="RLBuilder", ctor=lambda v: "(⟨%s, %s, %s, %s, %s, %s⟩ : RLBuilder)" % (v["len"], v["ones"], v["tail"], v["run"], v["samples"], v["data"]),
                            fields={"len": U, "ones": U, "tail": U, "run": ("T", [U, U]), "samples": PAIRS, "data": IV}, fieldmap={})
RLVEC_STRUCT = dict(lean="RL", ctor=lambda v: "(⟨%s, %s, %s, %s, %s, %s, %s⟩ : RL)" % (v["len"], v["ones"], v["rank_index"], v["select_index"], v["select_zero_index"], v["samples"], v["data"]),
                    fields={"len": U, "ones": U, "rank_index": ("N", "SampleIndex"), "select_index": ("N", "SampleIndex"),
                            "select_zero_index": ("N", "SampleIndex"), "samples": IV, "data": IV}, fieldmap={})
CONSTR4_CALLS = {
    "bits::bits_to_words": dict(lean="gen_bits_to_words m {0}", ret=U, args=[U]),
    "Vec::with_capacity": dict(lean="(#[] : Array Word)", ret=A, monadic=False, args=[U]),
    "Vec::new": dict(lean="(#[] : Array (Nat × Nat))", ret=PAIRS, monadic=False),
    "RawVector::with_capacity": dict(lean="gen_RawVector_with_capacity m {0}", ret=RV, args=[U]),
    "IntVector::with_capacity": dict(lean="gen_IntVector_with_capacity m {0} {1}", ret=IV, result=True, args=[U, U]),
    "IntVector::new": dict(lean="gen_IntVector_new m {0}", ret=IV, result=True, args=[U]),
    "self.data.push": dict(lean="gen_IntVector_push m self_data {0}", ret=UNIT, setvar="self_data", args=[W]),
    "<RLBuilder>.flush": dict(lean="gen_RLBuilder_flush m {0}", ret=UNIT, mutrecv=True, monadic=True),
    "<RLBuilder>.len": dict(lean="{0}.len", ret=U, monadic=False),
    "<RLBuilder>.count_ones": dict(lean="{0}.ones", ret=U, monadic=False),
    "<RLBuilder>.count_zeros": dict(lean="gen_RLBuilder_count_zeros m {0}", ret=U),
    "<RLBuilder>.blocks": dict(lean="{0}.samples.size", ret=U, monadic=False),
    "<SamplePairs>.last": dict(lean="{0}.back?", ret=("O", ("T", [U, U])), monadic=False),
    "SampleIndex::new": dict(lean="gen_SampleIndex_new m {0} {1}", ret=("N", "SampleIndex"), args=[LISTIT, U]),
    "<IntVector>.push": dict(lean="gen_IntVector_push m {0} {1}", ret=UNIT, mutrecv=True, monadic=True, args=[W]),
    "RLBuilder::default": dict(lean="gen_RLBuilder_default m", ret=("N", "RLBuilder")),
}
GROUPS.append(("FnsConstr4.lean", ["Sds.Model.RL", "Sds.Generated.FnsVec", "Sds.Generated.FnsVec2", "Sds.Generated.FnsBuild", "Sds.Generated.FnsConstr"], [
    dict(file="raw_vector.rs", impl=r"impl RawVector\b", fn="with_capacity", name="gen_RawVector_with_capacity", calls=CONSTR4_CALLS),
    dict(file="int_vector.rs", impl=r"impl IntVector\b", fn="with_capacity", name="gen_IntVector_with_capacity", calls=CONSTR4_CALLS),
    dict(file="rl_vector.rs", impl=r"impl RLBuilder\b", fn="encode", name="gen_RLBuilder_encode", self=dict(RLB_SELF, mut=True), calls=CONSTR4_CALLS,
         fuel=["23"]),
    dict(file="rl_vector.rs", impl=r"impl Default for RLBuilder\b", fn="default", name="gen_RLBuilder_default", calls=CONSTR4_CALLS,
         tyalias={"Self": ("N", "RLBuilder")}),
    dict(file="rl_vector.rs", impl=r"impl RLBuilder\b", fn="new", name="gen_RLBuilder_new", calls=CONSTR4_CALLS, tyalias={"Self": ("N", "RLBuilder")}),
    dict(file="rl_vector.rs", impl=r"impl From<RLBuilder> for RLVector\b", fn="from", name="gen_RLVector_from_builder", calls=CONSTR4_CALLS,
         structs_over={"RLVector": RLVEC_STRUCT}, tyalias={"Self": RLV_T}, ret=RLV_T),
]))


# ---- constructions, part 5: the wavelet-matrix core from a vector of values — the `macro_rules! wm_core_from` body
# instantiated at `u64` (the five instances differ only in the item type), and `WMCore::init_support` (an `iter_mut()` loop)
BVARR = ("N", "BvArray")
STRUCTS["BvArray"] = dict(lean="(Array BitVector)", ctor=None, fields={}, fieldmap={})
WMCORE_STRUCT = dict(lean="WMCore", ctor=lambda v: "(⟨%s⟩ : WMCore)" % v["levels"], fields={"levels": BVARR}, fieldmap={})
CONSTR5_CALLS = {
    "source.iter.cloned.max": dict(lean="arrMaxW source", ret=("O", W), monadic=False),
    "Vec::new": dict(lean="(#[] : {{ty}})", ret="HINT", monadic=False),
    "RawVector::with_capacity": dict(lean="gen_RawVector_with_capacity m {0}", ret=RV, args=[U]),
    "<RawVector>.push_bit": dict(lean="gen_RawVector_push_bit m {0} {1}", ret=UNIT, mutrecv=True, monadic=True, args=[B]),
    "BitVector::from": dict(lean="gen_BitVector_from_raw m {0}", ret=BV, args=[RV]),
    "<BvArray>.push": dict(lean="{0}.push {1}", ret=UNIT, mutrecv=True, args=[BV]),
    "<WMCore>.init_support": dict(lean="gen_WMCore_init_support m {0}", ret=UNIT, mutrecv=True, monadic=True),
    "<BitVector>.enable_rank": dict(lean="gen_BitVector_enable_rank m {0}", ret=UNIT, mutrecv=True, monadic=True),
    "<BitVector>.enable_select": dict(lean="gen_BitVector_enable_select m {0}", ret=UNIT, mutrecv=True, monadic=True),
    "<BitVector>.enable_select_zero": dict(lean="gen_BitVector_enable_select_zero m {0}", ret=UNIT, mutrecv=True, monadic=True),
    "<BitVector>.enable_pred_succ": dict(lean="gen_BitVector_enable_pred_succ m {0}", ret=UNIT, mutrecv=True, monadic=True),
}
GROUPS.append(("FnsConstr5.lean", ["Sds.Model.WM", "Sds.Generated.FnsVec", "Sds.Generated.FnsEnable", "Sds.Generated.FnsConstr3", "Sds.Generated.FnsConstr4"], [
    dict(file="wavelet_matrix/wm_core.rs", impl=r"impl WMCore\b", fn="init_support", name="gen_WMCore_init_support", calls=CONSTR5_CALLS,
         self=dict(lean="WMCore", var="c", rust="WMCore", mut=True, fields={"levels": ("levels", BVARR)}, order=["levels"]),
         structs_over={"WMCore": WMCORE_STRUCT}),
    dict(file="wavelet_matrix/wm_core.rs", impl=r"impl From<Vec<u64>> for WMCore\b", fn="from", name="gen_WMCore_from_u64", calls=CONSTR5_CALLS,
         macro_subst={"$t": "u64"}, structs_over={"WMCore": WMCORE_STRUCT}, tyalias={"Self": ("N", "WMCore")}, ret=("N", "WMCore")),
]))


# ---- IntVector::resize (a `match` with guards: an if / else-if chain), with `reserve` (the `Vec` capacity, which no model can
# see, is the named parameter `cap`)
RAW_SELF_M = dict(lean="RawVec", var="v", rust="RawVector", mut=True, fields={"len": ("len", U), "data": ("data", A)}, order=["len", "data"])
VEC3_CALLS = {
    "self.len": dict(lean="self_len", ret=U, monadic=False),
    "self.width": dict(lean="self_width", ret=U, monadic=False),
    "bits::bits_to_words": dict(lean="gen_bits_to_words m {0}", ret=U, args=[U]),
    "self.data.capacity": dict(lean="cap", ret=U, monadic=False),
    "self.data.reserve": dict(lean="()", ret=UNIT, monadic=False, args=[U]),
    "self.reserve": dict(lean="gen_IntVector_reserve m cap {self} {0}", ret=UNIT, mutself=True, args=[U]),
    "self.push": dict(lean="gen_IntVector_push m {self} {0}", ret=UNIT, mutself=True, args=[W]),
    "self.data.resize": dict(lean="gen_RawVector_resize m self_data {0} {1}", ret=UNIT, setvar="self_data", args=[U, B]),
}
GROUPS.append(("FnsVec3.lean", ["Sds.Model.IntVec", "Sds.Generated.FnsVec"], [
    dict(file="raw_vector.rs", impl=r"impl RawVector\b", fn="reserve", name="gen_RawVector_reserve", self=RAW_SELF_M, binders=["(cap : Nat)"], calls=VEC3_CALLS),
    dict(file="int_vector.rs", impl=r"impl Resize for IntVector\b", fn="reserve", name="gen_IntVector_reserve", self=dict(INT_SELF, mut=True), binders=["(cap : Nat)"],
         calls=dict(VEC3_CALLS, **{"self.data.reserve": dict(lean="gen_RawVector_reserve m cap self_data {0}", ret=UNIT, setvar="self_data", args=[U])})),
    dict(file="int_vector.rs", impl=r"impl Resize for IntVector\b", fn="resize", name="gen_IntVector_resize", self=dict(INT_SELF, mut=True), binders=["(cap : Nat)"],
         calls=VEC3_CALLS, tyalias=ITEM, fuel=["new_len + 1"]),
]))


# ---- conversions: the three `copy_bit_vec` (generic over the source: its `len()`, `count_ones()` and the list of the items of
# its `one_iter()` are the parameters `len`, `ones`, `items`)
SRC_PARAMS = {"source": ("(len ones : Nat) (items : List (Nat × Nat))", ("N", "BitSource"), "source")}
COPY_CALLS = {
    "source.len": dict(lean="len", ret=U, monadic=False),
    "source.count_ones": dict(lean="ones", ret=U, monadic=False),
    "source.one_iter": dict(lean="items", ret=PAIRIT, monadic=False),
    "RawVector::with_len": dict(lean="gen_RawVector_with_len m {0} {1}", ret=RV, args=[U, B]),
    "<RawVector>.set_bit": dict(lean="gen_RawVector_set_bit m {0} {1} {2}", ret=UNIT, mutrecv=True, monadic=True, args=[U, B]),
    "BitVector::from": dict(lean="gen_BitVector_from_raw m {0}", ret=BV, args=[RV]),
    "SparseBuilder::new": dict(lean="gen_SparseBuilder_new m fw {0} {1}", ret=SPBR, result=True, args=[U, U]),
    "<SparseBuilder>.set_unchecked": dict(lean="spbrLift (fun b => gen_SparseBuilder_set_unchecked m b {1}) {0}", ret=UNIT, mutrecv=True, monadic=True, args=[U]),
    "SparseVector::try_from": dict(lean="gen_SparseVector_try_from m {0}", ret=("N", "SparseVector"), result=True, args=[SPBR]),
    "RLBuilder::new": dict(lean="gen_RLBuilder_new m", ret=("N", "RLBuilder")),
    "<RLBuilder>.set_bit_unchecked": dict(lean="gen_RLBuilder_set_bit_unchecked m {0} {1}", ret=UNIT, mutrecv=True, monadic=True, args=[U]),
    "<RLBuilder>.set_len": dict(lean="gen_RLBuilder_set_len m {0} {1}", ret=UNIT, mutrecv=True, monadic=True, args=[U]),
    "RLVector::from": dict(lean="gen_RLVector_from_builder m {0}", ret=RLV_T, args=[("N", "RLBuilder")]),
}
GROUPS.append(("FnsCopy.lean", ["Sds.Model.GenStructs", "Sds.Generated.FnsConstr3", "Sds.Generated.FnsConstr4", "Sds.Generated.FnsBuild"], [
    dict(file="bit_vector.rs", impl=r"impl BitVector\b", fn="copy_bit_vec", name="gen_BitVector_copy_bit_vec", calls=COPY_CALLS, params=SRC_PARAMS,
         tyalias={"Self": BV}),
    dict(file="sparse_vector.rs", impl=r"impl SparseVector\b", fn="copy_bit_vec", name="gen_SparseVector_copy_bit_vec", calls=COPY_CALLS, params=SRC_PARAMS,
         binders=["(fw : Nat)"], structs_over={"SparseBuilder": SPBR_STRUCT}, tyalias={"Self": ("N", "SparseVector")}),
    dict(file="rl_vector.rs", impl=r"impl RLVector\b", fn="copy_bit_vec", name="gen_RLVector_copy_bit_vec", calls=COPY_CALLS, params=SRC_PARAMS,
         structs_over={"RLVector": RLVEC_STRUCT}, tyalias={"Self": RLV_T}),
]))


# ---- the rest of the sparse builder's public surface: `set` (`try_set(..).unwrap()`), `Extend::extend` (the iterator is the
# list of its items), and `SparseVector::is_multiset` (a `for` over `one_iter()` with an early `return true`)
SPMISC_CALLS = {
    "self.try_set": dict(lean="gen_SparseBuilder_try_set m {self} {0}", ret=UNIT, mutself=True, result=True, args=[U]),
    "self.set": dict(lean="gen_SparseBuilder_set m {self} {0}", ret=UNIT, mutself=True, args=[U]),
    "self.len": dict(lean="s.len", ret=U, monadic=False),
    "self.one_iter": dict(lean="items", ret=PAIRIT, monadic=False),
}
GROUPS.append(("FnsSpMisc.lean", ["Sds.Model.Sparse", "Sds.Generated.FnsBuild"], [
    dict(file="sparse_vector.rs", impl=r"impl SparseBuilder\b", fn="set", name="gen_SparseBuilder_set", self=dict(SPB_SELF, mut=True), calls=SPMISC_CALLS),
    dict(file="sparse_vector.rs", impl=r"impl Extend<usize> for SparseBuilder\b", fn="extend", name="gen_SparseBuilder_extend", self=dict(SPB_SELF, mut=True),
         calls=SPMISC_CALLS, params={"iter": ("(iter : List Nat)", LISTIT, "iter")}),
    dict(file="sparse_vector.rs", impl=r"impl SparseVector\b", fn="is_multiset", name="gen_SparseVector_is_multiset", self=SPARSE_SELF, calls=SPMISC_CALLS,
         binders=["(items : List (Nat × Nat))"]),
]))
TFI_CALLS = {
    "<ListIter>.size_hint": dict(lean="({0}.length, some {0}.length)", ret=("T", [U, ("O", U)]), monadic=False),
    "<ListIter>.next_back": dict(lean="({0}.getLast?, {0}.dropLast)", ret=("O", U), mutrecv=True),
    "SparseBuilder::multiset": dict(lean="gen_SparseBuilder_multiset m fw {0} {1}", ret=SPBR, args=[U, U]),
    "<SparseBuilder>.try_set": dict(lean="spbrLift (fun b => gen_SparseBuilder_try_set m b {1}) {0}", ret=UNIT, mutrecv=True, monadic=True, args=[U]),
    "SparseVector::try_from": dict(lean="gen_SparseVector_try_from m {0}", ret=("N", "SparseVector"), args=[SPBR]),
}
GROUPS.append(("FnsSpMisc2.lean", ["Sds.Model.GenStructs", "Sds.Generated.FnsBuild", "Sds.Generated.FnsConstr3"], [
    dict(file="sparse_vector.rs", impl=r"impl SparseVector\b", fn="try_from_iter", name="gen_SparseVector_try_from_iter", calls=TFI_CALLS,
         binders=["(fw : Nat)"], params={"iter": ("(iter : List Nat)", LISTIT, "iter")}, structs_over={"SparseBuilder": SPBR_STRUCT},
         ret=("N", "SparseVector"), err_as_fault=True),
]))


# ---- `RLVector::load`: the four `T::load(reader)?`, the block-count sanity check, the three sample indexes rebuilt over
# `(0..sample_blocks).map(|block| samples.get(..))` (each the list of its items), the final struct
RLLOAD_CALLS = dict(LOADS, **{
    "<IntVector>.len": dict(lean="{0}.len", ret=U, monadic=False),
    "<IntVector>.get": dict(lean="gen_IntVector_get m {0} {1}", ret=W, args=[U]),
    "bits::div_round_up": dict(lean="gen_div_round_up m {0} {1}", ret=U, args=[U, U]),
    "SampleIndex::new": dict(lean="gen_SampleIndex_new m {0} {1}", ret=("N", "SampleIndex"), args=[LISTIT, U]),
})
WMLOAD_CALLS = dict(LOADS, **{
    "Vec::with_capacity": dict(lean="(#[] : {{ty}})", ret="HINT", monadic=False, args=[U]),
    "<BitVector>.len": dict(lean="BitVector.len {0}", ret=U, monadic=False),
    "<BvArray>.push": dict(lean="{0}.push {1}", ret=UNIT, mutrecv=True, args=[BV]),
    "<WMCore>.init_support": dict(lean="gen_WMCore_init_support m {0}", ret=UNIT, mutrecv=True, monadic=True),
})
GROUPS.append(("FnsLoad3.lean", ["Sds.Model.WM", "Sds.Generated.FnsLoad", "Sds.Generated.FnsConstr5"], [
    dict(file="wavelet_matrix/wm_core.rs", impl=r"impl Serialize for WMCore\b", fn="load", name="gen_WMCore_load", reader="reader", ret=("N", "WMCore"),
         calls=WMLOAD_CALLS, structs_over={"WMCore": WMCORE_STRUCT}),
    # `WaveletMatrix::load` once more, this time over the TRANSLATED core loader (FnsLoad.lean has it over the model's codec)
    dict(file="wavelet_matrix.rs", impl=r"impl Serialize for WaveletMatrix\b", fn="load", name="gen_WaveletMatrix_load_full", reader="reader",
         ret=("N", "WaveletMatrix"), calls=dict(LOADS, **{"WMCore::load": dict(lean="gen_WMCore_load m {0}", ret=("N", "WMCore"), load=True)})),
]))
# ---- the generic `impl<V: Serialize> Serialize for Option<V> { fn load }` at the three instances `BitVector::load` uses, and
# `BitVector::load` once more over them (FnsLoad.lean has it over the model's option codecs)
def optload(v, name, lean):
    return dict(file="serialize.rs", impl=r"impl<V: Serialize> Serialize for Option<V>", fn="load", name=name, reader="reader",
                macro_subst={"V::load": "%s::load" % v}, ret=("O", ("N", v)),
                calls=dict(LOADS, **{"%s::load" % v: dict(lean=lean, ret=("N", v), load=True)}), tyalias={"Self": ("O", ("N", v))})


GROUPS.append(("FnsLoad4.lean", ["Sds.Model.WM", "Sds.Generated.FnsLoad"], [
    optload("RankSupport", "gen_Option_RankSupport_load", "gen_RankSupport_load m {0}"),
    optload("SelectSupport", "gen_Option_SelectSupport_load", "gen_SelectSupport_load m {0}"),
    dict(file="bit_vector.rs", impl=r"impl Serialize for BitVector\b", fn="load", name="gen_BitVector_load_full", reader="reader", ret=BV,
         calls=dict(LOADS, **{
             "Option::<RankSupport>::load": dict(lean="gen_Option_RankSupport_load m {0}", ret=("O", ("N", "RankSupport")), load=True),
             "Option::<SelectSupport<Identity>>::load": dict(lean="gen_Option_SelectSupport_load m {0}", ret=("O", ("N", "SelectI")), load=True),
             "Option::<SelectSupport<Complement>>::load": dict(lean="gen_Option_SelectSupport_load m {0}", ret=("O", ("N", "SelectC")), load=True)})),
]))
# ---- the composite loaders over the FULL bitvector loader: SparseVector::load, WMCore::load, WaveletMatrix::load with every inner
# `T::load` translated (no model codec anywhere below)
FULL_LOADS = dict(LOADS, **{"BitVector::load": dict(lean="gen_BitVector_load_full m {0}", ret=BV, load=True)})
GROUPS.append(("FnsLoad5.lean", ["Sds.Model.WM", "Sds.Generated.FnsLoad4", "Sds.Generated.FnsConstr5"], [
    dict(file="sparse_vector.rs", impl=r"impl Serialize for SparseVector\b", fn="load", name="gen_SparseVector_load_full", reader="reader",
         ret=("N", "SparseVector"), calls=FULL_LOADS),
    dict(file="wavelet_matrix/wm_core.rs", impl=r"impl Serialize for WMCore\b", fn="load", name="gen_WMCore_load_full", reader="reader", ret=("N", "WMCore"),
         calls=dict(WMLOAD_CALLS, **{"BitVector::load": dict(lean="gen_BitVector_load_full m {0}", ret=BV, load=True)}), structs_over={"WMCore": WMCORE_STRUCT}),
    dict(file="wavelet_matrix.rs", impl=r"impl Serialize for WaveletMatrix\b", fn="load", name="gen_WaveletMatrix_load_full2", reader="reader",
         ret=("N", "WaveletMatrix"), calls=dict(LOADS, **{"WMCore::load": dict(lean="gen_WMCore_load_full m {0}", ret=("N", "WMCore"), load=True)})),
]))
GROUPS.append(("FnsLoad2.lean", ["Sds.Model.RL", "Sds.Generated.FnsLoad", "Sds.Generated.FnsConstr"], [
    dict(file="rl_vector.rs", impl=r"impl Serialize for RLVector\b", fn="load", name="gen_RLVector_load", reader="reader", ret=RLV_T, calls=RLLOAD_CALLS,
         structs_over={"RLVector": RLVEC_STRUCT}),
]))


# ---- the memory-mapped view constructors: `MappedSlice<T>::new` (with `T::elements()` = `k`; the `from_raw_parts` cast is
# the named payload `file[offset+1 ..][.. len*k]`), `RawVectorMapper::new`, `IntVectorMapper::new`, and their `map_offset` /
# `map_len`.  The map is the array of its elements.
MSLICE = ("N", "MappedSlice")
RAWMAP = ("N", "RawVectorMapper")
INTMAP = ("N", "IntVectorMapper")
STRUCTS["MappedSlice"] = dict(lean="MappedSliceR", ctor=lambda v: "(⟨%s, %s⟩ : MappedSliceR)" % (v["data"], v["offset"]),
                              fields={"data": ("N", "SlicePayload"), "offset": U}, fieldmap={})
STRUCTS["SlicePayload"] = dict(lean="(Nat × List Word)", ctor=None, fields={}, fieldmap={})
STRUCTS["RawVectorMapper"] = dict(lean="RawMapperR", ctor=lambda v: "(⟨%s, %s⟩ : RawMapperR)" % (v["len"], v["data"]), fields={"len": U, "data": MSLICE}, fieldmap={})
STRUCTS["IntVectorMapper"] = dict(lean="IntMapperR", ctor=lambda v: "(⟨%s, %s, %s⟩ : IntMapperR)" % (v["len"], v["width"], v["data"]),
                                  fields={"len": U, "width": U, "data": RAWMAP}, fieldmap={})
STRUCTS["MappedOption"] = dict(lean="MappedOptionR", ctor=lambda v: "(⟨%s, %s, %s⟩ : MappedOptionR)" % (v["data"], v["offset"], v["data_len"]),
                               fields={"data": ("O", MSLICE), "offset": U, "data_len": U}, fieldmap={"data_len": "dataLen"})
MAP_PARAMS = {"map": ("(file : Array Word)", A, "file")}
VIEW_CALLS = {
    "map.len": dict(lean="file.size", ret=U, monadic=False),
    "map.as_ref": dict(lean="file", ret=A, monadic=False),
    "T::elements": dict(lean="k", ret=U, monadic=False),
    "MappedSlice::new": dict(lean="gen_MappedSlice_new m 1 {0} {1}", ret=MSLICE, args=[A, U]),
    "RawVectorMapper::new": dict(lean="gen_RawVectorMapper_new m {0} {1}", ret=RAWMAP, args=[A, U]),
    "self.len": dict(lean="v.data.1", ret=U, monadic=False),
    "self.data.map_offset": dict(lean="gen_%s_map_offset m v.data", ret=U),
    "self.data.map_len": dict(lean="gen_%s_map_len m v.data", ret=U),
}


def view_calls(inner):
    c = dict(VIEW_CALLS)
    c["self.data.map_offset"] = dict(lean="gen_%s_map_offset m v.data" % inner, ret=U)
    c["self.data.map_len"] = dict(lean="gen_%s_map_len m v.data" % inner, ret=U)
    return c


MS_SELF = dict(lean="MappedSliceR", var="v", rust="MappedSlice", mut=False, fields={"data": ("data", ("N", "SlicePayload")), "offset": ("offset", U)}, order=[])
RM_SELF = dict(lean="RawMapperR", var="v", rust="RawVectorMapper", mut=False, fields={"len": ("len", U), "data": ("data", MSLICE)}, order=[])
IM_SELF = dict(lean="IntMapperR", var="v", rust="IntVectorMapper", mut=False, fields={"len": ("len", U), "width": ("width", U), "data": ("data", RAWMAP)}, order=[])
IMPL_MS = r"impl<'a, T: Serializable> MemoryMapped<'a> for MappedSlice<'a, T>"
IMPL_RM = r"impl<'a> MemoryMapped<'a> for RawVectorMapper<'a>"
IMPL_IM = r"impl<'a> MemoryMapped<'a> for IntVectorMapper<'a>"
GROUPS.append(("FnsMapNew.lean", ["Sds.Model.GenStructs", "Sds.Model.GenSupport", "Sds.Generated.BitsFns"], [
    dict(file="serialize.rs", impl=IMPL_MS, fn="new", name="gen_MappedSlice_new", calls=VIEW_CALLS, params=MAP_PARAMS, binders=["(k : Nat)"],
         tyalias={"Self": MSLICE}, ret=MSLICE, err_as_fault=True,
         source_subst=[(r"let\s+source\s*:\s*&\[u64\]\s*=\s*&slice\[offset \+ 1 \.\.\];\s*let\s+data\s*:\s*&\[T\]\s*=\s*unsafe\s*\{\s*slice::from_raw_parts\(source\.as_ptr\(\) as \*const T, len\)\s*\};",
                        "let data = PAYLOAD;")],
         paths={"PAYLOAD": ("(len, (file.toList.drop (offset + 1)).take (len * k))", ("N", "SlicePayload"))}),
    dict(file="serialize.rs", impl=IMPL_MS, fn="map_offset", name="gen_MappedSlice_map_offset", self=MS_SELF, calls=VIEW_CALLS),
    dict(file="serialize.rs", impl=IMPL_MS, fn="map_len", name="gen_MappedSlice_map_len", self=MS_SELF, calls=VIEW_CALLS, binders=["(k : Nat)"]),
    dict(file="serialize.rs", impl=r"impl<'a> MemoryMapped<'a> for MappedBytes<'a>", fn="new", name="gen_MappedBytes_new",
         calls=dict(VIEW_CALLS, **{"bits::bytes_to_words": dict(lean="gen_bytes_to_words m {0}", ret=U, args=[U])}), params=MAP_PARAMS,
         tyalias={"Self": MSLICE}, ret=MSLICE, err_as_fault=True, structs_over={"MappedBytes": STRUCTS["MappedSlice"]},
         source_subst=[(r"let\s+source\s*:\s*&\[u64\]\s*=\s*&slice\[offset \+ 1 \.\.\];\s*let\s+data\s*:\s*&\[u8\]\s*=\s*unsafe\s*\{\s*slice::from_raw_parts\(source\.as_ptr\(\) as \*const u8, len\)\s*\};",
                        "let data = PAYLOAD;")],
         paths={"PAYLOAD": ("(len, (file.toList.drop (offset + 1)).take ((len + 7) / 8))", ("N", "SlicePayload"))}),
    dict(file="serialize.rs", impl=r"impl<'a> MemoryMapped<'a> for MappedBytes<'a>", fn="map_len", name="gen_MappedBytes_map_len", self=MS_SELF,
         calls=dict(VIEW_CALLS, **{"bits::bytes_to_words": dict(lean="gen_bytes_to_words m {0}", ret=U, args=[U])})),
    # `MappedStr::new`: the range tests of `MappedBytes::new`, then `str::from_utf8(bytes).map_err(..)?` — the validity test of
    # the standard library is the NAMED parameter `valid` (as in the model's string codec); an invalid payload is `InvalidData`
    dict(file="serialize.rs", impl=r"impl<'a> MemoryMapped<'a> for MappedStr<'a>", fn="new", name="gen_MappedStr_new",
         calls=dict(VIEW_CALLS, **{"bits::bytes_to_words": dict(lean="gen_bytes_to_words m {0}", ret=U, args=[U]),
                                   "utf8_check": dict(lean="(if valid (payloadBytes {0}) then ok () else fault (.err .invalid))", ret=UNIT, args=[("N", "SlicePayload")])}),
         params=MAP_PARAMS, binders=["(valid : List UInt8 → Bool)"],
         tyalias={"Self": MSLICE}, ret=MSLICE, err_as_fault=True, structs_over={"MappedStr": STRUCTS["MappedSlice"]},
         source_subst=[(r"let\s+source\s*:\s*&\[u64\]\s*=\s*&slice\[offset \+ 1 \.\.\];\s*let\s+bytes\s*:\s*&\[u8\]\s*=\s*unsafe\s*\{\s*slice::from_raw_parts\(source\.as_ptr\(\) as \*const u8, len\)\s*\};\s*let data = str::from_utf8\(bytes\)\.map_err\(\|_\| Error::new\(ErrorKind::InvalidData, \"Invalid UTF-8\"\)\)\?;",
                        "let data = PAYLOAD; utf8_check(data);")],
         paths={"PAYLOAD": ("(len, (file.toList.drop (offset + 1)).take ((len + 7) / 8))", ("N", "SlicePayload"))}),
    # `MappedOption<T>::new` at an arbitrary inner view constructor `T::new` (a parameter); the zero-sized `_marker` field is dropped
    dict(file="serialize.rs", impl=r"impl<'a, T: MemoryMapped<'a>> MemoryMapped<'a> for MappedOption<'a, T>", fn="new", name="gen_MappedOption_new",
         calls=dict(VIEW_CALLS, **{"T::new": dict(lean="inner {0} {1}", ret=MSLICE, args=[A, U])}),
         params=MAP_PARAMS, binders=["(inner : Array Word → Nat → Outcome MappedSliceR)"],
         tyalias={"Self": ("N", "MappedOption")}, ret=("N", "MappedOption"), err_as_fault=True,
         source_subst=[(r"_marker: marker::PhantomData,", "")]),
    dict(file="raw_vector.rs", impl=IMPL_RM, fn="new", name="gen_RawVectorMapper_new", calls=VIEW_CALLS, params=MAP_PARAMS, tyalias={"Self": RAWMAP}, ret=RAWMAP,
         err_as_fault=True),
    dict(file="raw_vector.rs", impl=IMPL_RM, fn="map_offset", name="gen_RawVectorMapper_map_offset", self=RM_SELF, calls=view_calls("MappedSlice")),
    dict(file="raw_vector.rs", impl=IMPL_RM, fn="map_len", name="gen_RawVectorMapper_map_len", self=RM_SELF,
         calls=dict(view_calls("MappedSlice"), **{"self.data.map_len": dict(lean="gen_MappedSlice_map_len m 1 v.data", ret=U)})),
    dict(file="int_vector.rs", impl=IMPL_IM, fn="new", name="gen_IntVectorMapper_new", calls=VIEW_CALLS, params=MAP_PARAMS, tyalias={"Self": INTMAP}, ret=INTMAP,
         err_as_fault=True),
    dict(file="int_vector.rs", impl=IMPL_IM, fn="map_offset", name="gen_IntVectorMapper_map_offset", self=IM_SELF, calls=view_calls("RawVectorMapper")),
    dict(file="int_vector.rs", impl=IMPL_IM, fn="map_len", name="gen_IntVectorMapper_map_len", self=IM_SELF, calls=view_calls("RawVectorMapper")),
]))


# ---- `From<Vec<T>>`, `FromIterator<T>`, `Extend<T>` for IntVector (the `macro_rules! from_extend_int_vector` body at `u64, 64`;
# the other instances differ in the item type and the width constant), `FromIterator<bool> for BitVector`.  A consumed iterator
# is the list of its items; the `Vec` capacity seen by `reserve` is the arbitrary parameter `cap`.
WLIST = ("N", "WordListIter")
BLIST = ("N", "BoolListIter")
STRUCTS["WordListIter"] = dict(lean="(List Word)", ctor=None, fields={}, fieldmap={})
STRUCTS["BoolListIter"] = dict(lean="(List Bool)", ctor=None, fields={}, fieldmap={})
FROMEXT_CALLS = {
    "iter.into_iter": dict(lean="iter", ret=WLIST, monadic=False),
    "<WordListIter>.size_hint": dict(lean="({0}.length, some {0}.length)", ret=("T", [U, ("O", U)]), monadic=False),
    "<WordListIter>.next": dict(lean="({0}.head?, {0}.tail)", ret=("O", W), mutrecv=True),
    "<BoolListIter>.size_hint": dict(lean="({0}.length, some {0}.length)", ret=("T", [U, ("O", U)]), monadic=False),
    "self.reserve": dict(lean="gen_IntVector_reserve m cap {self} {0}", ret=UNIT, mutself=True, args=[U]),
    "self.push": dict(lean="gen_IntVector_push m {self} {0}", ret=UNIT, mutself=True, args=[W]),
    "IntVector::with_capacity": dict(lean="gen_IntVector_with_capacity m {0} {1}", ret=IV, result=True, args=[U, U]),
    "IntVector::new": dict(lean="gen_IntVector_new m {0}", ret=IV, result=True, args=[U]),
    "<IntVector>.extend": dict(lean="gen_IntVector_extend_u64 m cap {0} {1}", ret=UNIT, mutrecv=True, monadic=True, args=[WLIST]),
    "RawVector::with_capacity": dict(lean="gen_RawVector_with_capacity m {0}", ret=RV, args=[U]),
    "<RawVector>.push_bit": dict(lean="gen_RawVector_push_bit m {0} {1}", ret=UNIT, mutrecv=True, monadic=True, args=[B]),
    "<RawVector>.count_ones": dict(lean="gen_RawVector_count_ones m {0}", ret=U),
}
MS64 = {"$t": "u64", "$w": "64"}
GROUPS.append(("FnsFromExt.lean", ["Sds.Model.BitVector", "Sds.Generated.FnsVec", "Sds.Generated.FnsVec2", "Sds.Generated.FnsVec3", "Sds.Generated.FnsView",
                                   "Sds.Generated.FnsConstr4"], [
    dict(file="int_vector.rs", impl=r"impl Extend<u64> for IntVector\b", fn="extend", name="gen_IntVector_extend_u64", macro_subst=MS64,
         self=dict(INT_SELF, mut=True), binders=["(cap : Nat)"], calls=FROMEXT_CALLS, params={"iter": ("(iter : List Word)", WLIST, "iter")},
         tyalias=ITEM, fuel=["iter.length + 1"]),
    dict(file="int_vector.rs", impl=r"impl From<Vec<u64>> for IntVector\b", fn="from", name="gen_IntVector_from_vec_u64", macro_subst=MS64,
         binders=["(cap : Nat)"], calls=dict(FROMEXT_CALLS, **{"v.len": dict(lean="v.size", ret=U, monadic=False)}),
         params={"v": ("(v : Array Word)", WLIST, "v.toList")}, tyalias={"Self": IV}, ret=IV),
    dict(file="int_vector.rs", impl=r"impl FromIterator<u64> for IntVector\b", fn="from_iter", name="gen_IntVector_from_iter_u64", macro_subst=MS64,
         binders=["(cap : Nat)"], calls=FROMEXT_CALLS, params={"iter": ("(iter : List Word)", WLIST, "iter")}, tyalias={"Self": IV}, ret=IV),
    dict(file="bit_vector.rs", impl=r"impl FromIterator<bool> for BitVector\b", fn="from_iter", name="gen_BitVector_from_iter",
         calls=dict(FROMEXT_CALLS, **{"iter.into_iter": dict(lean="iter", ret=BLIST, monadic=False)}),
         params={"iter": ("(iter : List Bool)", BLIST, "iter")}, tyalias={"Self": BV}, ret=BV),
]))


# ---- the other instances of `macro_rules! from_extend_int_vector` (u8 / u16 / u32 at their own widths, usize at 64): the same
# three bodies with `$t` / `$w` replaced; an item of type `$t` is a word below 2^$w
def fromext_instance(t, w):
    ms = {"$t": t, "$w": str(w)}
    ext = "gen_IntVector_extend_%s" % t
    calls = dict(FROMEXT_CALLS, **{"<IntVector>.extend": dict(lean=ext + " m cap {0} {1}", ret=UNIT, mutrecv=True, monadic=True, args=[WLIST])})
    return [
        dict(file="int_vector.rs", impl=r"impl Extend<%s> for IntVector\b" % t, fn="extend", name=ext, macro_subst=ms,
             self=dict(INT_SELF, mut=True), binders=["(cap : Nat)"], calls=calls, params={"iter": ("(iter : List Word)", WLIST, "iter")},
             tyalias=ITEM, fuel=["iter.length + 1"]),
        dict(file="int_vector.rs", impl=r"impl From<Vec<%s>> for IntVector\b" % t, fn="from", name="gen_IntVector_from_vec_%s" % t, macro_subst=ms,
             binders=["(cap : Nat)"], calls=dict(calls, **{"v.len": dict(lean="v.size", ret=U, monadic=False)}),
             params={"v": ("(v : Array Word)", WLIST, "v.toList")}, tyalias={"Self": IV}, ret=IV),
        dict(file="int_vector.rs", impl=r"impl FromIterator<%s> for IntVector\b" % t, fn="from_iter", name="gen_IntVector_from_iter_%s" % t, macro_subst=ms,
             binders=["(cap : Nat)"], calls=calls, params={"iter": ("(iter : List Word)", WLIST, "iter")}, tyalias={"Self": IV}, ret=IV),
    ]


GROUPS.append(("FnsFromExt2.lean", ["Sds.Model.BitVector", "Sds.Generated.FnsFromExt"],
               fromext_instance("u8", 8) + fromext_instance("u16", 16) + fromext_instance("u32", 32) + fromext_instance("usize", 64)))


# ---- the wavelet matrix from a vector: `WaveletMatrix::start_offsets` (counting, two `sort_unstable_by_key`, the prefix sums
# through `iter_mut()`, `collect()` into an IntVector, `pack`) and the `macro_rules! wavelet_matrix_from` body at `u64`
WUP = ("N", "WUPairs")
STRUCTS["WUPairs"] = dict(lean="(Array (Word × Nat))", ctor=None, fields={}, fieldmap={})
WMNEW_CALLS = {
    "Vec::with_capacity": dict(lean="(#[] : {{ty}})", ret="HINT", monadic=False, args=[U]),
    "<WUPairs>.push": dict(lean="{0}.push {1}", ret=UNIT, mutrecv=True, args=[("T", [W, U])]),
    "<IntVector>.pack": dict(lean="gen_IntVector_pack m {0}", ret=UNIT, mutrecv=True, monadic=True),
    "source.iter.cloned.max": dict(lean="arrMaxW source", ret=("O", W), monadic=False),
    "source.len": dict(lean="source.size", ret=U, monadic=False),
    "Self::start_offsets": dict(lean="gen_WaveletMatrix_start_offsets m cap {0} {1} {2}", ret=IV, args=[WLIST, U, W]),
    "WMCore::from": dict(lean="gen_WMCore_from_u64 m {0}", ret=("N", "WMCore"), args=[A]),
}
GROUPS.append(("FnsWMNew.lean", ["Sds.Model.WM", "Sds.Generated.FnsFromExt", "Sds.Generated.FnsConstr2", "Sds.Generated.FnsConstr5"], [
    dict(file="wavelet_matrix.rs", impl=r"impl WaveletMatrix\b", fn="start_offsets", name="gen_WaveletMatrix_start_offsets", calls=WMNEW_CALLS,
         binders=["(cap : Nat)"], params={"iter": ("(iter : List Word)", WLIST, "iter")}, ret=IV),
    dict(file="wavelet_matrix.rs", impl=r"impl From<Vec<u64>> for WaveletMatrix\b", fn="from", name="gen_WaveletMatrix_from_u64", calls=WMNEW_CALLS,
         macro_subst={"$t": "u64"}, binders=["(cap : Nat)"], tyalias={"Self": ("N", "WaveletMatrix")}, ret=("N", "WaveletMatrix")),
]))


# ---- `skip_option`: the length prefix, `elements * WORD_BYTES`, and `io::copy(&mut reader.by_ref().take(bytes), &mut io::sink())`
# — the one expression outside the subset, replaced by the NAMED reader operation `copyTakeSink` (GenSupport: consume up to
# `bytes / 8` elements, report the bytes consumed) — then the comparison that makes a short stream an error
GROUPS.append(("FnsSkip.lean", ["Sds.Model.Ser", "Sds.Model.GenSupport", "Sds.Generated.BitsFns"], [
    dict(file="serialize.rs", impl=None, fn="skip_option", name="gen_skip_option", reader="reader", ret=UNIT,
         source_subst=[(r"io::copy\(&mut reader\.by_ref\(\)\.take\(bytes\), &mut io::sink\(\)\)", "copy_take_sink(reader, bytes)")],
         calls=dict(LOADS, **{"copy_take_sink": dict(lean="copyTakeSink {0} {1}", ret=W, args=[None, W], load=True)})),
]))


# ---- `bits::select`, both `cfg` alternatives: the block compiled without BMI2 (the SWAR computation, statement by statement; the
# two `#[cfg(feature = "verif_hooks")] assert!`s are the bounds hooks of the `get_unchecked` reads that follow them, which
# `tableU` reports as `oob` itself) and the block compiled with it (`_pdep_u64` is the named function `pdep`)
CFG_BMI2 = r'#\[cfg\(all\(target_arch = "x86_64", target_feature = "bmi2"\)\)\]\s*\{[^{}]*\}'
CFG_NOT_BMI2 = r'#\[cfg\(not\(all\(target_arch = "x86_64", target_feature = "bmi2"\)\)\)\]\s*\{[^{}]*\}'
HOOK1 = r'#\[cfg\(feature = "verif_hooks"\)\]\s*assert!\(rank \+ 1 < _PS_OVERFLOW\.len\(\), "verif_hooks: oob"\);'
HOOK2 = r'#\[cfg\(feature = "verif_hooks"\)\]\s*assert!\(\(relative_rank << 8\) \+ \(\(n >> offset\) as usize & 0xFF\) < _SELECT_IN_BYTE\.len\(\), "verif_hooks: oob"\);'
GROUPS.append(("FnsSelect.lean", ["Sds.Model.GenSupport", "Sds.Generated.BitsFns"], [
    dict(file="bits.rs", fn="select", name="gen_select_portable",
         source_subst=[(CFG_BMI2, ""), (r'#\[cfg\(not\(all\(target_arch = "x86_64", target_feature = "bmi2"\)\)\)\]\s*\{', "{"), (HOOK1, ""), (HOOK2, "")],
         calls={"_PS_OVERFLOW.get_unchecked": dict(lean="tableU Generated.PS_OVERFLOW {0}", ret=W),
                "_SELECT_IN_BYTE.get_unchecked": dict(lean="tableU Generated.SELECT_IN_BYTE {0}", ret=W)}),
    dict(file="bits.rs", fn="select", name="gen_select_bmi2",
         source_subst=[(CFG_NOT_BMI2, ""), (r'#\[cfg\(all\(target_arch = "x86_64", target_feature = "bmi2"\)\)\]\s*\{', "{")],
         calls={"core::arch::x86_64::_pdep_u64": dict(lean="pdep {0} {1}", ret=W, args=[W, W], monadic=False)}),
]))


# ---- `RLVector::predecessor`: its `FnMut` closure assigns the captured local `iterate`.  The closure is lambda-lifted (its text
# is cut out of the function, the captured variables become parameters, the assigned one is threaded as state), `advance_if` is
# translated once more with a STATE-PASSING closure parameter, and the call site threads `iterate` through it.
PRED_CLOSURE = r"(?s)let _ = iter\.advance_if\(\|next\| \{(.*?)\}\);"


def pred_closure_src(src):
    import re as _re
    body = find_fn(src, r"impl<'a> PredSucc<'a> for RLVector\b", "predecessor")[2]
    ms = _re.findall(PRED_CLOSURE, body, flags=_re.S)
    if len(ms) != 1:
        raise Unsupported("closure of RLVector::predecessor not found exactly once")
    return "fn predecessor_closure(iterate: bool, value: usize, next: Option<(usize, usize)>) -> bool {" + ms[0] + "}"


GROUPS.append(("FnsRLPred.lean", ["Sds.Model.RL", "Sds.Generated.FnsRL"], [
    runit("advance_if", True, name="gen_RunIter_advance_if_st", reader="cst", reader_ty="σ", ret=("O", PAIR),
          source_subst=[],
          pre_subst=[("advance(", "advance_st(cst, ")],
          params={"advance": ("{σ : Type} (advance : σ → Option (Nat × Nat) → Outcome (Bool × σ)) (cst : σ)", "FPS", "advance")},
          calls=dict(RUN_MUT, **{"advance_st": dict(lean="advance {0} {1}", ret=B, args=[None, ("O", PAIR)], load=True)})),
    dict(file="rl_vector.rs", synth=pred_closure_src, impl=None, fn="predecessor_closure", name="gen_RLVector_predecessor_closure", reader="iterate", reader_ty="Bool",
         params={"iterate": ("(iterate : Bool)", B, "iterate")}, params_extra={"iterate": ("iterate", B)}, calls={}),
    rlq("predecessor", r"impl<'a> PredSucc<'a> for RLVector\b", ["v.data.len + 2"],
        source_subst=[(PRED_CLOSURE, "let (iter_next, iterate_next) = advance_if_with_closure(iter, iterate, value); iter = iter_next; iterate = iterate_next;")],
        calls=dict(RLQ_CALLS, **{"advance_if_with_closure": dict(
            lean="(do let r ← gen_RunIter_advance_if_st m v {0} (fun st nx => gen_RLVector_predecessor_closure m st {2} nx) {1}; pure (r.1.2, r.2))",
            ret=("T", [RUNIT, B]), args=[RUNIT, B, U])})),
]))


def generate_fn_files(read, consts_by_file):
    """read(rel) -> source text; consts_by_file: {rel: {NAME: int}} (module / associated constants visible in that file)"""
    files = {}
    skipped = []
    for fname, imports, fns in GROUPS:
        parts = []
        for cfg in fns:
            try:
                parts.append("/-- `%s` of %s, translated from the source -/\n" % (cfg["fn"], cfg["file"])
                             + translate(cfg["synth"](read(cfg["file"])) if cfg.get("synth") else read(cfg["file"]), cfg, CALLS, consts_by_file.get(cfg["file"], {}),
                                         dict(STRUCTS, **cfg.get("structs_over", {}))) + cfg.get("after", ""))
            except Unsupported as e:
                # fail closed, but only for what depends on this function: the definition is left out, so the equation
                # that mentions it (and every property theorem built on it) stops checking, while the properties that
                # do not depend on it are unaffected
                skipped.append("%s::%s (%s): %s" % (cfg["file"], cfg["fn"], cfg["name"], e))
                parts.append("-- UNTRANSLATABLE `%s` of %s: %s\n" % (cfg["fn"], cfg["file"], str(e).replace("\n", " ")))
        files[fname] = ("-- GENERATED by tools/gen_lean.py (tools/rs2lean.py) from /repo/src — do not edit.\n"
                        + "".join("import %s\n" % i for i in imports)
                        + "set_option linter.unusedVariables false\nnamespace Sds.Generated\nopen Sds Outcome\n\n" + "\n".join(parts) + "\nend Sds.Generated\n")
    files["_skipped"] = skipped
    return files
