"""Serialization shapes: for every `impl … Serialize for X` in /repo/src, the ordered list of write steps of
`serialize_header` / `serialize_body`, the ordered list of `T::load(reader)?` calls of `load`, and the summands of
`size_in_elements`, extracted statement by statement into `lean/Sds/Generated/SerShape.lean`.

A statement that is not one of the recognised `?`-joined write forms becomes `SerStep.other "<text>"`, so that the Lean
obligation "every step of every serializer is a `?`-joined `serialize` / `write_all`" (Props/C14) fails on it, and the
`rfl` obligations that pin each type's field order (Props/C06) fail on any reordering, omission or addition.
"""
import re


class ShapeError(Exception):
    pass


FILES = ["serialize.rs", "raw_vector.rs", "int_vector.rs", "bit_vector.rs", "bit_vector/rank_support.rs",
         "bit_vector/select_support.rs", "sparse_vector.rs", "rl_vector.rs", "wavelet_matrix.rs",
         "wavelet_matrix/wm_core.rs"]


def strip_comments(src):
    src = re.sub(r"/\*.*?\*/", " ", src, flags=re.S)
    return re.sub(r"//[^\n]*", "", src)


def balanced(s, i, open_, close):
    depth = 0
    while True:
        if s[i] == open_:
            depth += 1
        elif s[i] == close:
            depth -= 1
            if depth == 0:
                return i
        i += 1


def fn_body(scope, name):
    m = re.search(r"\bfn\s+%s\b[^{;]*\{" % name, scope)
    if not m:
        return None
    end = balanced(scope, m.end() - 1, "{", "}")
    return scope[m.end():end]


def statements(body):
    """top-level statements of a block body: split at `;` outside braces / parentheses; a `{…}` block that ends a
    statement (if / for / unsafe) closes it without `;`"""
    out, cur, depth_b, depth_p, i = [], "", 0, 0, 0
    while i < len(body):
        ch = body[i]
        cur += ch
        if ch in "([":
            depth_p += 1
        elif ch in ")]":
            depth_p -= 1
        elif ch == "{":
            depth_b += 1
        elif ch == "}":
            depth_b -= 1
            if depth_b == 0 and depth_p == 0:
                rest = body[i + 1:].lstrip()
                if not rest.startswith("else") and re.match(r"\s*(if|for|unsafe|while|loop|match)\b", cur):
                    out.append(cur.strip()); cur = ""
        elif ch == ";" and depth_b == 0 and depth_p == 0:
            out.append(cur[:-1].strip()); cur = ""
        i += 1
    if cur.strip():
        out.append(cur.strip())
    return [re.sub(r"\s+", " ", s) for s in out if s.strip()]


def lean_str(s):
    return '"' + s.replace("\\", "\\\\").replace('"', '\\"') + '"'


def steps_of(body, locals_=None):
    locals_ = set() if locals_ is None else locals_
    steps = []
    for st in statements(body):
        if st == "Ok(())":
            continue
        m = re.fullmatch(r"unsafe \{(.*)\}", st)
        if m:
            steps += steps_of(m.group(1), locals_)
            continue
        m = re.fullmatch(r"let (?:mut )?(\w+)(?: ?: ?[^=]+)? = (.*)", st)
        if m and "writer" not in m.group(2):
            locals_.add(m.group(1))
            continue
        m = re.fullmatch(r"self\.(\w+)\.serialize\(writer\)\??", st)
        if m:
            steps.append("SerStep.field %s" % lean_str(m.group(1))); continue
        m = re.fullmatch(r"self\.(\w+)\.serialize_header\(writer\)\?", st)
        if m:
            steps.append("SerStep.fieldHeader %s" % lean_str(m.group(1))); continue
        m = re.fullmatch(r"self\.(\w+)\.serialize_body\(writer\)\?", st)
        if m:
            steps.append("SerStep.fieldBody %s" % lean_str(m.group(1))); continue
        m = re.fullmatch(r"(\w+)\.serialize\(writer\)\?", st)
        if m and m.group(1) in locals_:
            steps.append("SerStep.localValue %s" % lean_str(m.group(1))); continue
        if re.fullmatch(r"writer\.write_all\([^;]*\)\?", st):
            steps.append("SerStep.writeAll"); continue
        m = re.fullmatch(r"for (\w+) in self\.(\w+)\.iter\(\) \{ ?(\w+)\.serialize\(writer\)\?; ?\}", st)
        if m and m.group(1) == m.group(3):
            steps.append("SerStep.each %s" % lean_str(m.group(2))); continue
        if re.fullmatch(r"if let Some\(value\) = self \{ ?value\.serialize\(writer\)\?; ?\}", st):
            steps.append("SerStep.optValue"); continue
        m = re.fullmatch(r"if let Some\(value\) = self \{ ?(\w+) = value\.size_in_elements\(\); ?\}", st)
        if m and m.group(1) in locals_:
            continue                                        # pure: computes the length prefix of an Option
        m = re.fullmatch(r"if ([^{]*)\{ ?(.*?)writer\.write_all\((.*)\)\?; ?\}", st)
        if m and "writer" not in m.group(1) and "writer" not in m.group(2) and "writer" not in m.group(3) \
                and all(re.match(r"let ", x) for x in statements(m.group(2))):
            steps.append("SerStep.condWriteAll"); continue
        steps.append("SerStep.other %s" % lean_str(st[:120]))
    return steps


def extract(read):
    shapes = []
    for f in FILES:
        src = strip_comments(read(f))
        cut = re.search(r"#\[cfg\(test\)\]\s*mod\s+\w+\s*\{", src)
        if cut:
            src = src[:cut.start()]
        for m in re.finditer(r"\nimpl(?:<[^>]*>)?\s+Serialize\s+for\s+([^\n{]+?)\s*\{", src):
            ty = m.group(1).strip()
            end = balanced(src, m.end() - 1, "{", "}")
            scope = src[m.end():end]
            hb, bb, lb, sb = (fn_body(scope, n) for n in ("serialize_header", "serialize_body", "load", "size_in_elements"))
            if hb is None or bb is None or lb is None or sb is None:
                raise ShapeError("impl Serialize for %s (%s): a required method is missing" % (ty, f))
            loads = [(re.sub(r"\s+", " ", t).strip(), q) for t, q in re.findall(r"([A-Za-z_<][\w:<>(), ]*?)::load\(reader\)(\?)?", lb)]
            load_steps = [lean_str(t) if q else lean_str(t + " [result not propagated]") for t, q in loads]
            sbn = re.sub(r"\s+", " ", sb).strip()
            size_terms = [lean_str(sbn)] if ";" in sbn else [lean_str(t.strip()) for t in sbn.split("+")]
            shapes.append((ty, f, steps_of(hb), steps_of(bb), load_steps, size_terms))
    if not shapes:
        raise ShapeError("no `impl Serialize` found")
    return shapes


def ident(ty):
    return re.sub(r"_+", "_", re.sub(r"[^A-Za-z0-9]", "_", ty)).strip("_")


def render(shapes):
    L = ["-- GENERATED by tools/gen_lean.py (tools/ser_shape.py) from /repo/src — do not edit.",
         "import Sds.Model.SerShape", "namespace Sds.Generated", "open Sds", ""]
    names = []
    for ty, f, h, b, lo, sz in shapes:
        n = "serShape_" + ident(ty)
        names.append(n)
        L.append("/-- `impl Serialize for %s` (%s) -/" % (ty, f))
        L.append("def %s : SerShape :=\n  { type := %s,\n    header := [%s],\n    body := [%s],\n    loads := [%s],\n    size := [%s] }\n"
                 % (n, lean_str(ty), ", ".join(h), ", ".join(b), ", ".join(lo), ", ".join(sz)))
    L.append("def allSerShapes : List SerShape := [%s]" % ", ".join(names))
    L += ["", "end Sds.Generated", ""]
    return "\n".join(L)
