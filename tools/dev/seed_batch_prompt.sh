python3 - <<'E'
steers = {
 'A':"code that validates or reconstructs state when data is loaded, converted or cloned (the `load` functions and their sanity checks, `From`/`TryFrom` conversions, `copy_bit_vec`, `enable_*`), with an effect that appears only for particular well-formed inputs (sizes at exact multiples of a block or word, empty optional parts, maximal widths, counts that differ between two components)",
 'B':"the body of a loop (word scans in select and in the one/zero iterators, bucket scans and binary searches of the sparse vector, run decoding and block search of the run-length vector, level loops of the wavelet matrix, buffer flushing of the writers) - a changed bound, comparison, increment order or early exit that only matters when the loop runs a particular number of times or crosses a particular boundary",
 'C':"a build-profile-dependent effect: arithmetic that overflows, a shift by the full width, or an `unchecked`/`unsafe` access, arranged so that the debug (overflow-checked) and the release (wrapping) build behave differently and at least one of them violates the property, for an argument or size that ordinary use does not hit",
 'D':"two cooperating sites that each look fine alone: a value cached, rounded, clamped or encoded in one function and relied on in another (counts, lengths in bits vs words vs elements, samples, offsets), changed consistently for the common case but not for a rare one",
}
order="BACDABDCBADCABCDDBCA"
P='''You are helping to test a verification framework by mutation. Work ONLY inside the scratch git worktree __WT__ (a checkout of the Rust crate jltsiren/simple-sds: succinct data structures - raw/int vectors, rank/select bitvectors, Elias-Fano sparse vector, run-length vector, wavelet matrix, serialization + mmap). Do NOT read or touch /verif or /repo; everything you need is in the worktree. No network; use `cargo ... --offline` and always set the environment variable CARGO_TARGET_DIR=__WT__/target so builds stay inside the worktree. Do NOT use `git stash` (the stash is shared between worktrees); to get back to clean sources use `git -C __WT__ diff -- src > /some/file` and `git -C __WT__ checkout -- src`, and `git -C __WT__ apply` to re-apply.

The property under test is in __WT__/_out/PROPERTY.txt - read it first, then read the source files in src/ that implement what it talks about (and README/SERIALIZATION.md where relevant).

Your job: produce ONE small change to the library source under src/ (not to tests, docs, Cargo.toml or build flags) that makes the property FALSE, while
  (a) the crate still compiles without new warnings, and
  (b) the existing test suite still passes completely: `cargo test --offline` must report 147 passed (ignored tests stay ignored), and
  (c) the change looks like something a maintainer could plausibly commit in good faith (an optimisation, a fast path, a refactoring, a simplification, a "robustness" tweak, a changed constant or type), not an obvious sabotage, and
  (d) the change is in: __STEER__ - and the breakage needs something SPECIFIC to manifest, so ordinary use and the existing tests do not expose it at once.
Earlier rounds of this exercise already produced the most obvious candidates (e.g. `pop_int` not clearing the tail, `AccessIter::nth` overflow, `set_len` run reset in RLBuilder, thread-local blocks in `temp_file_name`, mmap of an empty file, `MappedSlice` dropping the element factor, decode loop bounded by 21 units, long-superblock off-by-one in `SelectSupport::new`): find something DIFFERENT from those.

Also write a demonstration: a Rust integration test file (it will be placed at tests/seeded_demo.rs and run with `cargo test --offline --test seeded_demo`) that uses only the public API of the crate (crate name `simple_sds`), PASSES on the unchanged code and FAILS (assertion failure, panic, wrong result) with your change. Keep the demo fast (< 20 s in debug build) and deterministic. If the effect only shows in release builds (no overflow checks), say so in the notes and still make the demo fail in the default `cargo test` (debug) profile if at all possible; if impossible, pick another change.

Deliverables - write exactly these files:
  __WT__/_out/patch.diff   unified diff of your source change, produced with `git -C __WT__ diff -- src > __WT__/_out/patch.diff` (must apply with `git apply` to a clean checkout)
  __WT__/_out/demo.rs      the demonstration test file
  __WT__/_out/meta.txt     plain text: which clause of the property breaks; the change and its mechanism; exactly what is needed for it to manifest (inputs, sizes, operation sequence, build profile); why the 147 tests miss it; the commands you ran and their results

Before you finish, verify all of it yourself: on a clean checkout, demo passes; with the patch applied, demo fails and the full `cargo test --offline` still shows 147 passed. Leave the worktree with the patch applied to src/ and no tests/seeded_demo.rs file. Be economical: one good change is enough. In your final message, give a 5-line summary (file/function changed, what is needed to trigger, how the demo fails).
'''
for i in range(1,21):
    wt="/tmp/wt9/d_C%02d"%i
    open(wt+"/_out/PROMPT.txt","w").write(P.replace("__WT__",wt).replace("__STEER__",steers[order[i-1]]))
print("ok")
E