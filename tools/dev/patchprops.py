import re, sys
ROOT = "/tmp/lk_main/Sds"
def patch(prop, add, names, imps):
    p = f"{ROOT}/Props/{prop}.lean"
    s = open(p).read()
    for imp in imps:
        line = f"import {imp}\n"
        if line not in s:
            ms = list(re.finditer(r"^import [^\n]*\n", s, flags=re.M))
            e = ms[-1].end()
            s = s[:e] + line + s[e:]
    endm = f"end Sds.{prop}"
    assert s.count(endm) == 1, prop
    if names[0] not in s:
        s = s.replace(endm, add.rstrip("\n") + "\n\n" + endm)
    open(p, "w").write(s)
    a = f"{ROOT}/Audit/{prop}.lean"
    t = open(a).read()
    for n in names:
        l = f"#print axioms Sds.{prop}.{n}\n"
        if l not in t:
            t = t.rstrip("\n") + "\n" + l
    open(a, "w").write(t)
