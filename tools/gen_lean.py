#!/usr/bin/env python3
"""Translator: /repo/src -> lean/Sds/Generated/*.lean  (run on every check).

Extracts the parts of the code that are *data* (lookup tables, structural constants, the
atomic-operation shape of `temp_file_name`) with fail-closed regular expressions over the exact
source shapes.  The Lean theorems over these generated definitions are re-checked on every run,
so a changed table entry / constant / atomic op breaks a named proof obligation.

Exit status: 0 ok (files written only when their content changed, to keep lake incremental),
2 = a source shape could not be parsed (broken tie; message on stderr names what failed).
"""
import os, re, sys
sys.path.insert(0, os.path.dirname(os.path.abspath(__file__)))
import rs2lean, fn_table, ser_shape

REPO = os.environ.get("VERIF_REPO", "/repo")
OUT = os.environ.get("VERIF_GEN_OUT") or os.path.join(os.path.dirname(os.path.abspath(__file__)), "..", "lean", "Sds", "Generated")


class ParseError(Exception):
    pass


def read(rel):
    with open(os.path.join(REPO, "src", rel)) as f:
        return f.read()


def strip_comments(src):
    src = re.sub(r"/\*.*?\*/", " ", src, flags=re.S)
    src = re.sub(r"//[^\n]*", "", src)
    return src


def int_lit(tok):
    tok = tok.strip().replace("_", "")
    m = re.fullmatch(r"(0x[0-9A-Fa-f]+|0b[01]+|[0-9]+)(u8|u16|u32|u64|usize)?", tok)
    if not m:
        raise ParseError("not an integer literal: %r" % tok)
    return int(m.group(1), 0)


def const_expr(tok, env):
    """Evaluate the tiny constant expressions that occur in the sources."""
    tok = tok.strip()
    # replace known names (Self::X, RLVector::X, bits::X, X)
    def repl(m):
        name = m.group(2)
        if name in env:
            return str(env[name])
        raise ParseError("unknown name in constant expression: %r" % m.group(0))
    t = re.sub(r"\b((?:Self|RLVector|bits|Self)::)?([A-Z_][A-Z0-9_]*)\b", repl, tok)
    t = t.replace("_", "") if re.fullmatch(r"[0-9xXa-fA-F_]+", t) else t
    if not re.fullmatch(r"[0-9xXa-fA-Fob\s\+\-\*/<>\(\)]+", t):
        raise ParseError("unsupported constant expression: %r" % tok)
    t = re.sub(r"0x[0-9a-fA-F_]+", lambda m: str(int(m.group(0).replace("_", ""), 16)), t)
    t = re.sub(r"0b[01_]+", lambda m: str(int(m.group(0).replace("_", ""), 2)), t)
    t = t.replace("/", "//")
    try:
        return int(eval(t, {"__builtins__": {}}, {}))
    except Exception as e:
        raise ParseError("cannot evaluate %r: %s" % (tok, e))


def table(src, name, ty, n):
    m = re.search(r"const\s+%s\s*:\s*\[\s*%s\s*;\s*(\d+)\s*\]\s*=\s*\[(.*?)\];" % (re.escape(name), ty), src, re.S)
    if not m:
        raise ParseError("table %s: declaration not found" % name)
    if int(m.group(1)) != n:
        raise ParseError("table %s: declared length %s, expected %d" % (name, m.group(1), n))
    body = strip_comments(m.group(2))
    vals = [int_lit(t) for t in body.split(",") if t.strip()]
    if len(vals) != n:
        raise ParseError("table %s: %d entries, expected %d" % (name, len(vals), n))
    return vals


def consts(src, names, env, prefix=""):
    out = {}
    for name in names:
        m = re.search(r"const\s+%s\s*:\s*(?:usize|u64)\s*=\s*([^;]+);" % re.escape(name), src)
        if not m:
            raise ParseError("constant %s%s not found" % (prefix, name))
        v = const_expr(m.group(1), {**env, **out})
        out[name] = v
    return out


def lean_list(vals, per_line=8, fmt=str):
    lines = []
    for i in range(0, len(vals), per_line):
        lines.append("  " + ", ".join(fmt(v) for v in vals[i:i + per_line]))
    return "[\n" + ",\n".join(lines) + "]"


def temp_name_prog(src):
    m = re.search(r"pub fn temp_file_name\s*\([^)]*\)\s*->\s*PathBuf\s*\{(.*?)\n\}", src, re.S)
    if not m:
        raise ParseError("temp_file_name: function not found")
    body = strip_comments(m.group(1))
    ops = []
    # every access to the counter, in textual order (the body is straight-line code)
    for mm in re.finditer(r"(?:let\s+(?:mut\s+)?(\w+)\s*=\s*)?TEMP_FILE_COUNTER\s*\.\s*(\w+)\s*\(([^;]*)\)\s*;", body):
        var, op, args = mm.group(1), mm.group(2), mm.group(3)
        ops.append((var, op, args))
    if not ops:
        raise ParseError("temp_file_name: no access to TEMP_FILE_COUNTER found")
    if re.search(r"\b(loop|while|for|if|match)\b", body):
        raise ParseError("temp_file_name: control flow in body (translator handles straight-line code only)")
    fs = body.find("format!(")
    if fs < 0:
        raise ParseError("temp_file_name: format! call not found")
    depth, j = 0, fs + len("format!")
    for j in range(fs + len("format!"), len(body)):
        if body[j] == "(":
            depth += 1
        elif body[j] == ")":
            depth -= 1
            if depth == 0:
                break
    inner = body[fs + len("format!("):j]
    fm = re.fullmatch(r"\s*\"([^\"]*)\"\s*,(.*)", inner, re.S)
    if not fm:
        raise ParseError("temp_file_name: format! arguments not understood")
    fmt_args = [a.strip() for a in fm.group(2).split(",")]
    lean_ops = []
    named = None
    for var, op, args in ops:
        if op == "fetch_add":
            k = int_lit(args.split(",")[0])
            lean_ops.append("AOp.fetchAdd %d" % k)
        elif op == "fetch_sub":
            k = int_lit(args.split(",")[0])
            lean_ops.append("AOp.fetchSub %d" % k)
        elif op == "load":
            lean_ops.append("AOp.load")
        elif op == "store":
            a = args.split(",")[0].strip()
            mm = re.fullmatch(r"(\w+)\s*\+\s*(\d+)", a)
            if mm:
                lean_ops.append("AOp.storeRegPlus %d" % int(mm.group(2)))
            else:
                lean_ops.append("AOp.storeOther")
        elif op == "swap":
            lean_ops.append("AOp.swapOther")
        else:
            lean_ops.append("AOp.other")
        if var is not None and var in fmt_args:
            named = len(lean_ops) - 1
    uses_part = "name_part" in fmt_args
    named_var = ops[named][0] if named is not None else None
    if re.search(r"\{[^}]+\}", fm.group(1)) or "{{" in fm.group(1) or "}}" in fm.group(1):
        raise ParseError("temp_file_name: format string uses a placeholder other than {}")
    if fm.group(1).count("{}") != len(fmt_args):
        raise ParseError("temp_file_name: placeholder / argument count mismatch")
    arg_kinds = []
    for a in fmt_args:
        if a == "name_part":
            arg_kinds.append("NameArg.part")
        elif re.fullmatch(r"(std::)?process::id\(\)", a):
            arg_kinds.append("NameArg.pid")
        elif named_var is not None and a == named_var:
            arg_kinds.append("NameArg.counter")
        else:
            arg_kinds.append("NameArg.other")
    return lean_ops, named, fm.group(1), uses_part, ("process::id()" in fm.group(2)), arg_kinds


# ---- small arithmetic helpers of bits.rs, translated expression by expression ---------------------------------------
import ast as _ast

BITS_FNS = ["words_to_bytes", "bytes_to_words", "round_up_to_word_bytes", "words_to_bits", "bits_to_words",
            "round_up_to_word_bits", "div_round_up", "split_offset", "bit_offset"]


def translate_bits_fns(src, env):
    """Each listed function must be `pub fn name(params: usize…) -> usize | (usize, usize) { <one expression> }` over
    + - * / << >> & |, integer literals, module constants, parameters and calls to other listed functions.  The result is
    a Lean definition in the model's vocabulary (`addM/subM/mulM` in the arithmetic mode, division panicking on zero,
    `<<` dropping the bits shifted out of the word)."""
    out = []
    for name in BITS_FNS:
        m = re.search(r"pub fn %s\s*\(([^)]*)\)\s*->\s*([^{]+)\{(.*?)\n\}" % name, src, re.S)
        if not m:
            raise ParseError("bits::%s: function not found" % name)
        params = []
        for prm in m.group(1).split(","):
            pm = re.fullmatch(r"\s*(\w+)\s*:\s*usize\s*", prm)
            if not pm:
                raise ParseError("bits::%s: parameter %r is not `name: usize`" % (name, prm))
            params.append(pm.group(1))
        body = strip_comments(m.group(3)).strip()
        if ";" in body or "let " in body or "{" in body:
            raise ParseError("bits::%s: body is not a single expression" % name)
        try:
            tree = _ast.parse(body, mode="eval").body
        except SyntaxError:
            raise ParseError("bits::%s: expression not understood: %r" % (name, body))
        stmts, counter = [], [0]

        def fresh():
            counter[0] += 1
            return "t%d" % counter[0]

        def emit(n):
            if isinstance(n, _ast.Constant) and isinstance(n.value, int):
                return str(n.value)
            if isinstance(n, _ast.Name):
                if n.id in params:
                    return n.id
                if n.id in env:
                    return str(env[n.id])
                raise ParseError("bits::%s: unknown name %s" % (name, n.id))
            if isinstance(n, _ast.BinOp):
                a, b = emit(n.left), emit(n.right)
                if a.isdigit() and b.isdigit():          # constant folding (rustc evaluates these at compile time)
                    x, y = int(a), int(b)
                    ops = {_ast.Add: x + y, _ast.Sub: x - y, _ast.Mult: x * y, _ast.BitAnd: x & y, _ast.BitOr: x | y}
                    for k, v in ops.items():
                        if isinstance(n.op, k) and 0 <= v < 2 ** 64:
                            return str(v)
                t = fresh()
                if isinstance(n.op, _ast.Add): stmts.append("let %s ← addM m %s %s" % (t, a, b))
                elif isinstance(n.op, _ast.Sub): stmts.append("let %s ← subM m %s %s" % (t, a, b))
                elif isinstance(n.op, _ast.Mult): stmts.append("let %s ← mulM m %s %s" % (t, a, b))
                elif isinstance(n.op, _ast.Div): stmts.append("let %s ← gDiv %s %s" % (t, a, b))
                elif isinstance(n.op, _ast.RShift): stmts.append("let %s := %s >>> %s" % (t, a, b))
                elif isinstance(n.op, _ast.LShift): stmts.append("let %s := (%s <<< %s) %% U64" % (t, a, b))
                elif isinstance(n.op, _ast.BitAnd): stmts.append("let %s := %s &&& %s" % (t, a, b))
                elif isinstance(n.op, _ast.BitOr): stmts.append("let %s := %s ||| %s" % (t, a, b))
                else: raise ParseError("bits::%s: unsupported operator" % name)
                return t
            if isinstance(n, _ast.Call) and isinstance(n.func, _ast.Name) and n.func.id in BITS_FNS:
                args = [emit(a) for a in n.args]
                t = fresh()
                stmts.append("let %s ← gen_%s m %s" % (t, n.func.id, " ".join(args)))
                return t
            raise ParseError("bits::%s: unsupported expression %r" % (name, _ast.dump(n)))

        if isinstance(tree, _ast.Tuple):
            parts = [emit(e) for e in tree.elts]
            ret, rty = "(" + ", ".join(parts) + ")", " × ".join(["Nat"] * len(parts))
        else:
            ret, rty = emit(tree), "Nat"
        out.append("def gen_%s (m : Mode) %s: Outcome (%s) := do\n%s  return %s\n" % (
            name, "".join("(%s : Nat) " % q for q in params), rty, "".join("  %s\n" % st for st in stmts), ret))
    return ("-- GENERATED by tools/gen_lean.py from /repo/src/bits.rs (arithmetic helpers) — do not edit.\n"
            "import Sds.Model.GenSupport\nnamespace Sds.Generated\nopen Sds Outcome\n\n"
            + "\n".join(out) + "\nend Sds.Generated\n")


def drop_closes(src, ty):
    """true iff `impl Drop for <ty>` exists and its `drop` body calls self.close() (result used or discarded)"""
    m = re.search(r"impl\s+Drop\s+for\s+%s\s*\{(.*?)\n\}" % ty, strip_comments(src), re.S)
    if not m:
        return False
    return re.search(r"self\s*\.\s*close\s*\(\s*\)", m.group(1)) is not None


def generate():
    files = {}
    bits = read("bits.rs")
    low = table(bits, "LOW_SET", "u64", 65)
    high = table(bits, "HIGH_SET", "u64", 65)
    pso = table(bits, "_PS_OVERFLOW", "u64", 65)
    sib = table(bits, "_SELECT_IN_BYTE", "u8", 2048)
    files["Tables.lean"] = (
        "-- GENERATED by tools/gen_lean.py from /repo/src/bits.rs — do not edit.\n"
        "namespace Sds.Generated\n\n"
        "def LOW_SET : List Nat := " + lean_list(low, 4, hex) + "\n\n"
        "def HIGH_SET : List Nat := " + lean_list(high, 4, hex) + "\n\n"
        "def PS_OVERFLOW : List Nat := " + lean_list(pso, 4, hex) + "\n\n"
        "def SELECT_IN_BYTE : List Nat := " + lean_list(sib, 16) + "\n\n"
        "end Sds.Generated\n")

    c = {}
    c.update(consts(bits, ["WORD_BYTES", "WORD_BITS", "INDEX_SHIFT", "OFFSET_MASK"], {}))
    # masks used by the portable select (literals inside the function body)
    sel = re.search(r"pub unsafe fn select\(n: u64, rank: usize\) -> usize \{(.*?)\n\}", bits, re.S)
    if not sel:
        raise ParseError("bits::select not found")
    selbody = strip_comments(sel.group(1))
    swar = re.findall(r"0x[0-9A-Fa-f_]{16,}", selbody)
    want = ["0x5555_5555_5555_5555", "0x3333_3333_3333_3333", "0x3333_3333_3333_3333",
            "0x0F0F_0F0F_0F0F_0F0F", "0x0101_0101_0101_0101", "0x8080_8080_8080_8080"]
    swar_ok = [s.upper().replace("0X", "0x") for s in swar] == [w.upper().replace("0X", "0x") for w in want]
    pdep_ok = bool(re.search(r"_pdep_u64\(\s*1u64\s*<<\s*rank\s*,\s*n\s*\)", selbody)) and \
        bool(re.search(r"pos\.trailing_zeros\(\)", selbody))
    rs = read("bit_vector/rank_support.rs")
    r = consts(rs, ["BLOCK_SIZE", "RELATIVE_RANK_BITS", "RELATIVE_RANK_MASK", "WORDS_PER_BLOCK", "WORD_MASK"], c)
    ss = read("bit_vector/select_support.rs")
    s = consts(ss, ["SUPERBLOCK_SIZE", "SUPERBLOCK_MASK", "BLOCKS_IN_SUPERBLOCK", "BLOCK_SIZE", "BLOCK_MASK"], c)
    rl = read("rl_vector.rs")
    l = consts(rl, ["CODE_SIZE", "CODE_SHIFT", "CODE_FLAG", "CODE_MASK", "BLOCK_SIZE"], c)
    ix = read("rl_vector/index.rs")
    i = consts(ix, ["RATIO"], c)
    sp = read("sparse_vector.rs")
    p = consts(sp, ["BINARY_SEARCH_THRESHOLD"], c)
    rv = read("raw_vector.rs")
    w = consts(rv, ["DEFAULT_BUFFER_SIZE"], c)
    lines = ["-- GENERATED by tools/gen_lean.py from /repo/src — do not edit.", "namespace Sds.Generated", ""]
    def emit(prefix, d):
        for k, v in d.items():
            lines.append("def %s%s : Nat := %d" % (prefix, k, v))
    emit("", c)
    emit("RANK_", r)
    emit("SEL_", s)
    emit("RL_", l)
    emit("IDX_", i)
    emit("SPARSE_", p)
    emit("WRITER_", w)
    lines.append("/-- the six SWAR literals of the portable `bits::select`, in source order, are the expected ones -/")
    lines.append("def SWAR_MASKS_AS_EXPECTED : Bool := %s" % ("true" if swar_ok else "false"))
    lines.append("/-- the BMI2 path is `_pdep_u64(1 << rank, n).trailing_zeros()` -/")
    lines.append("def PDEP_SHAPE_AS_EXPECTED : Bool := %s" % ("true" if pdep_ok else "false"))
    lines += ["", "end Sds.Generated", ""]
    files["Consts.lean"] = "\n".join(lines)

    files["BitsFns.lean"] = translate_bits_fns(bits, c)
    # function bodies translated statement by statement (tools/rs2lean.py, configuration in tools/fn_table.py)
    try:
        files.update(fn_table.generate_fn_files(read, {
            "bits.rs": c, "serialize.rs": {**c, "bits::WORD_BYTES": c["WORD_BYTES"]}, "raw_vector.rs": c, "int_vector.rs": c, "wavelet_matrix/wm_core.rs": c,
            "bit_vector/rank_support.rs": {**c, **r}, "sparse_vector.rs": {**c, **p}, "rl_vector/index.rs": {**c, **i},
            "rl_vector.rs": {**c, **l}, "bit_vector/select_support.rs": {**c, **s},
            "bit_vector.rs": {**c, "RankSupport::BLOCK_SIZE": r["BLOCK_SIZE"], "SelectSupport::SUPERBLOCK_SIZE": s["SUPERBLOCK_SIZE"]}}))
    except rs2lean.Unsupported as e:
        raise ParseError("function translator: %s" % e)
    skipped = files.pop("_skipped", [])
    try:
        files["SerShape.lean"] = ser_shape.render(ser_shape.extract(read))
    except ser_shape.ShapeError as e:
        # fail closed for the properties that depend on the shapes (C06, C14) only
        skipped.append("serialization shapes: %s" % e)
        files["SerShape.lean"] = ("-- GENERATED by tools/gen_lean.py — the serializer shapes could NOT be extracted: %s\n"
                                  "import Sds.Model.SerShape\nnamespace Sds.Generated\nopen Sds\n"
                                  "def allSerShapes : List SerShape := []\nend Sds.Generated\n" % str(e).replace("\n", " "))
    ser = read("serialize.rs")
    # MemoryMap: how failure of mmap is detected, and the length passed to munmap
    mm = re.search(r"let ptr = unsafe \{ libc::mmap\([^;]*\) \};\s*if\s+([^{]+)\{\s*return Err", ser)
    if not mm:
        raise ParseError("MemoryMap::new: mmap call / failure test not found")
    test = mm.group(1).strip()
    if test == "ptr.is_null()":
        fail_test = "null"
    elif re.fullmatch(r"ptr\s*==\s*libc::MAP_FAILED(\s*\|\|\s*ptr\.is_null\(\))?|ptr\.is_null\(\)\s*\|\|\s*ptr\s*==\s*libc::MAP_FAILED", test):
        fail_test = "map_failed"
    else:
        raise ParseError("MemoryMap::new: unrecognised mmap failure test %r" % test)
    ms = ser.find("libc::munmap(")
    if ms < 0:
        raise ParseError("MemoryMap::drop: munmap call not found")
    depth, j, args, cur = 0, ms + len("libc::munmap"), [], ""
    for j in range(ms + len("libc::munmap"), len(ser)):
        ch = ser[j]
        if ch == "(":
            depth += 1
            if depth == 1:
                continue
        elif ch == ")":
            depth -= 1
            if depth == 0:
                args.append(cur)
                break
        elif ch == "," and depth == 1:
            args.append(cur)
            cur = ""
            continue
        cur += ch
    if len(args) != 2 or re.sub(r"\s+", "", args[0]) != "self.ptr.cast::<libc::c_void>()":
        raise ParseError("MemoryMap::drop: munmap arguments not understood: %r" % args)
    class _M:  # keep the shape the code below expects
        def __init__(self, a): self.a = a
        def group(self, i): return self.a
    mu = _M(args[1])
    mlen = re.sub(r"\s+", "", mu.group(1))
    # a length held in a local (`let bytes = …; munmap(ptr, bytes)`) is resolved through its (single) binding in the
    # enclosing `drop` body
    if re.fullmatch(r"[A-Za-z_]\w*", mlen):
        dm = re.search(r"impl\s+Drop\s+for\s+MemoryMap\s*\{(.*?)\n\}", ser, re.S)
        binds = re.findall(r"let\s+%s(?:\s*:\s*usize)?\s*=\s*([^;]+);" % re.escape(mlen), dm.group(1)) if dm else []
        if len(binds) == 1:
            mlen = re.sub(r"\s+", "", binds[0])
    if mlen == "self.len":
        munmap_factor = 1
    elif mlen in ("self.len*8", "8*self.len", "bits::words_to_bytes(self.len)", "self.len*bits::WORD_BYTES",
                  "self.len*mem::size_of::<u64>()"):
        munmap_factor = 8
    else:
        raise ParseError("MemoryMap::drop: unrecognised munmap length %r" % mlen)
    # skip_option: is the number of bytes actually skipped compared with the announced length?
    so = re.search(r"pub fn skip_option<T: Read>\(reader: &mut T\) -> io::Result<\(\)> \{(.*?)\n\}", ser, re.S)
    if not so:
        raise ParseError("skip_option not found")
    sob = strip_comments(so.group(1))
    if re.search(r"let\s+(\w+)\s*=\s*io::copy\(", sob) and re.search(r"return Err|Err\(Error::new", sob):
        skip_checked = True
    elif re.search(r"(?<![=\w]\s)io::copy\([^;]*\)\?;", sob) and "Err(" not in sob:
        skip_checked = False
    else:
        raise ParseError("skip_option: unrecognised shape")
    files["SerConsts.lean"] = (
        "-- GENERATED by tools/gen_lean.py from /repo/src/serialize.rs — do not edit.\n"
        "namespace Sds.Generated\n\n"
        "/-- multiplier applied to the element count in the `munmap` length (8 = bytes, 1 = elements) -/\n"
        "def MUNMAP_FACTOR : Nat := %d\n"
        "/-- `MemoryMap::new` detects failure by comparing with MAP_FAILED (true) or only with NULL (false) -/\n"
        "def MMAP_CHECKS_MAP_FAILED : Bool := %s\n"
        "/-- `skip_option` verifies that as many bytes were skipped as the length prefix announced -/\n"
        "def SKIP_OPTION_CHECKED : Bool := %s\n"
        "/-- `impl Drop for RawVectorWriter / IntVectorWriter` exists and its body calls `self.close()` -/\n"
        "def RAW_WRITER_DROP_CLOSES : Bool := %s\n"
        "def INT_WRITER_DROP_CLOSES : Bool := %s\n\n"
        "end Sds.Generated\n" % (munmap_factor, "true" if fail_test == "map_failed" else "false", "true" if skip_checked else "false",
                                  "true" if drop_closes(read("raw_vector.rs"), "RawVectorWriter") else "false",
                                  "true" if drop_closes(read("int_vector.rs"), "IntVectorWriter") else "false"))
    ops, named, fmt, uses_part, uses_pid, arg_kinds = temp_name_prog(ser)
    fmt_chars = "[" + ", ".join("'%s'" % ("\\'" if c == "'" else "\\\\" if c == "\\" else c) for c in fmt) + "]"
    files["TempName.lean"] = (
        "-- GENERATED by tools/gen_lean.py from /repo/src/serialize.rs (temp_file_name) — do not edit.\n"
        "import Sds.Model.Atomic\n"
        "namespace Sds.Generated\nopen Sds\n\n"
        "/-- accesses to TEMP_FILE_COUNTER in source order -/\n"
        "def tempNameOps : List AOp := [" + ", ".join(ops) + "]\n"
        "/-- index of the access whose result is formatted into the name (none = the name does not use the counter) -/\n"
        "def tempNameResultOp : Option Nat := " + ("some %d" % named if named is not None else "none") + "\n"
        "def tempNameFormat : String := \"" + fmt + "\"\n"
        "def tempNameUsesPart : Bool := " + ("true" if uses_part else "false") + "\n"
        "def tempNameUsesPid : Bool := " + ("true" if uses_pid else "false") + "\n"
        "/-- the format string as characters, and the kinds of its arguments in order -/\n"
        "def tempNameFormatChars : List Char := " + fmt_chars + "\n"
        "def tempNameArgs : List NameArg := [" + ", ".join(arg_kinds) + "]\n\n"
        "end Sds.Generated\n")
    files["_skipped"] = skipped
    return files


def main():
    try:
        files = generate()
        skipped = files.pop("_skipped", [])
    except ParseError as e:
        sys.stderr.write("gen_lean: BROKEN TIE: %s\n" % e)
        return 2
    os.makedirs(OUT, exist_ok=True)
    changed = []
    for name, content in files.items():
        path = os.path.join(OUT, name)
        old = None
        if os.path.exists(path):
            with open(path) as f:
                old = f.read()
        if old != content:
            with open(path, "w") as f:
                f.write(content)
            changed.append(name)
    print("gen_lean: ok (%s)" % (", ".join(changed) if changed else "unchanged"))
    for sk in skipped:
        print("gen_lean: UNTRANSLATABLE %s" % sk)
    return 0


if __name__ == "__main__":
    sys.exit(main())
