#!/usr/bin/env python3
"""Runs the registered quick checks against every seeded change under /verif/seeded/<id>/ (never part of a registered
command).  For each: `git -C /repo apply patch.diff`, run `./check <property> quick` for the property the change breaks
(and optionally others), record whether a VIOLATION was raised and by which route, then `git -C /repo checkout -- .`.

  seedtest.py [id ...]            run the listed (default: all) seeded changes
"""
import json, os, subprocess, sys, time

ROOT = os.path.abspath(os.path.join(os.path.dirname(os.path.abspath(__file__)), ".."))
SEEDED = os.path.join(ROOT, "seeded")


def sh(cmd, cwd=None):
    p = subprocess.run(cmd, cwd=cwd, stdout=subprocess.PIPE, stderr=subprocess.STDOUT, text=True)
    return p.returncode, p.stdout


def main():
    ids = sys.argv[1:] or sorted(d for d in os.listdir(SEEDED) if os.path.isdir(os.path.join(SEEDED, d)))
    rc, out = sh(["git", "-C", "/repo", "status", "--porcelain"])
    if out.strip():
        print("refusing: /repo has uncommitted changes")
        return 2
    results = {}
    rpath = os.path.join(SEEDED, "results.json")
    if os.path.exists(rpath):
        results = json.load(open(rpath))
    for sid in ids:
        d = os.path.join(SEEDED, sid)
        meta = json.load(open(os.path.join(d, "meta.json")))
        props = meta.get("check_with", [meta["property"]])
        rc, out = sh(["git", "-C", "/repo", "apply", os.path.join(d, "patch.diff")])
        if rc != 0:
            print(sid, "PATCH DOES NOT APPLY:", out.strip()[:200])
            results[sid] = dict(applied=False)
            continue
        try:
            res = {}
            for prop in props:
                t0 = time.time()
                rc, out = sh([os.path.join(ROOT, "check"), prop, "quick"])
                viol = [l for l in out.splitlines() if l.startswith("VIOLATION")]
                why = [l for l in out.splitlines() if l.startswith("# ")]
                res[prop] = dict(exit=rc, violations=len(viol), no_failing_input=any("no-failing-input-found" in v for v in viol),
                                 first=(why[0][:300] if why else ""), wall_s=round(time.time() - t0, 1))
                print("%s %s: exit=%d violations=%d %s" % (sid, prop, rc, len(viol), (why[0][:160] if why else "")), flush=True)
            results[sid] = dict(applied=True, checks=res, detected=any(r["exit"] != 0 for r in res.values()))
        finally:
            sh(["git", "-C", "/repo", "checkout", "--", "."])
            sh(["git", "-C", "/repo", "clean", "-fdq", "tests"])
    with open(os.path.join(SEEDED, "results.json"), "w") as f:
        json.dump(results, f, indent=1, sort_keys=True)
    missed = [s for s, r in results.items() if r.get("applied") and not r.get("detected")]
    print("detected %d / %d; missed: %s" % (sum(1 for r in results.values() if r.get("detected")), len(results), missed))
    return 0


if __name__ == "__main__":
    sys.exit(main())
