#!/bin/bash
# Runs every claimed check (tier $1, default quick) on the current tree, rewriting all evidence files. Maintenance helper.
cd "$(dirname "$0")/.." || exit 2
TIER=${1:-quick}; FAIL=0
for p in $(python3 -c "import json; print(' '.join(c['property_id'] for c in json.load(open('MANIFEST.json'))['checks']))"); do
  ./check $p $TIER | tail -1 || FAIL=1
done
exit $FAIL
