#!/bin/bash
# intake_seed.sh <worktree> <seed-id> <property> : re-confirms a seeded change produced in a scratch worktree
# (suite passes with it; demo fails with it and passes without) and stores it under /verif/seeded/<seed-id>/.
set -u
WT=$1; ID=$2; PROP=$3
export CARGO_NET_OFFLINE=true
cd "$WT" || exit 2
[ -f _out/patch.diff ] && [ -f _out/demo.rs ] || { echo "$ID: missing outputs"; exit 2; }
git checkout -q -- src 2>/dev/null; rm -f tests/seeded_demo.rs
git apply --check _out/patch.diff || { echo "$ID: patch does not apply to a clean checkout"; exit 1; }
mkdir -p tests; cp _out/demo.rs tests/seeded_demo.rs
cargo test --offline --test seeded_demo >/tmp/intake_$ID.clean.log 2>&1; CLEAN=$?
git apply _out/patch.diff
cargo test --offline --test seeded_demo >/tmp/intake_$ID.mut.log 2>&1; MUT=$?
rm -f tests/seeded_demo.rs
cargo test --offline >/tmp/intake_$ID.suite.log 2>&1; SUITE=$?
PASSED=$(grep -E "^test result: ok. 147 passed" /tmp/intake_$ID.suite.log | wc -l)
echo "$ID: demo on clean tree exit=$CLEAN (want 0); demo with change exit=$MUT (want !=0); suite with change exit=$SUITE, 147-pass lines=$PASSED"
if [ $CLEAN -eq 0 ] && [ $MUT -ne 0 ] && [ $SUITE -eq 0 ] && [ $PASSED -ge 1 ]; then
  D=/verif/seeded/$ID; mkdir -p $D
  cp _out/patch.diff $D/patch.diff; cp _out/demo.rs $D/demo.rs; cp _out/meta.txt $D/notes.txt 2>/dev/null
  python3 - "$D" "$ID" "$PROP" <<'PY'
import json,sys
d,i,p=sys.argv[1:4]
notes=open(d+"/notes.txt").read() if __import__("os").path.exists(d+"/notes.txt") else ""
json.dump({"id":i,"property":p,"check_with":[p],"needs":notes[:1500],
  "confirmed":"re-run by tools/intake_seed.sh in the scratch worktree: demo passes on the clean tree, fails with the change; `cargo test --offline` passes (147 tests) with the change",
  "demo":"demo.rs (integration test: place at tests/seeded_demo.rs and run `cargo test --offline --test seeded_demo`)"},open(d+"/meta.json","w"),indent=1)
PY
  echo "$ID: KEPT"
else
  echo "$ID: REJECTED"
fi
