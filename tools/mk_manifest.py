#!/usr/bin/env python3
"""Writes /verif/MANIFEST.json from the table below.  A property is *claimed* iff its Props/Audit files exist; all
others are listed under not_applicable with the reason (not built yet — never a claim that the technique cannot apply)."""
import json, os, subprocess, sys

ROOT = os.path.abspath(os.path.join(os.path.dirname(os.path.abspath(__file__)), ".."))

TEXT = {
 "C01": ("Unbounded Lean proof: for every well-formed raw vector (every bit sequence, any length/density/clustering) the modelled rank9 and "
         "Clark-style select supports, as built by the code's algorithm or ANY support satisfying the validity predicate (e.g. loaded from a file), "
         "answer rank/select/select_zero/pred/succ exactly as the List Bool spec, in both arithmetic modes; tied to the code by a byte-exact "
         "correspondence (answers and serialized support bytes) on all sequences up to length 8/11 and regime-directed vectors incl. long superblocks.",
         "partial only in that the Rust code is modelled by hand; get() beyond len inside the last word is outside the stated domain"),
 "C02": ("Unbounded Lean proof over the Elias-Fano model: for every universe n < 2^64, every strictly increasing position list and EVERY admissible low "
         "width 1..63 the builder accepts, establishes the encoding and all queries (get, rank, rank_zero, select, select_zero, pred, succ, iterators) equal "
         "the set-level spec for every argument in both modes; correspondence exhaustive for n <= 8/10, bucket-boundary stress and n up to 2^64-1.",
         "the f64 width rule is a parameter (read from the implementation's bytes, checked admissible); the plain bitvector `high` is used through its proven interface"),
 "C03": ('Unbounded Lean proof (full statement): for every run list and every accepted builder call history the vector can be constructed (From<RLBuilder> never faults) and len, counts, get, rank, rank_zero, select, select_zero and the first item of predecessor/successor equal the list-level spec for EVERY argument in both arithmetic modes; run iterator = maximal runs with running rank/offset; codec, sample-index arithmetic, range contract and block search proven; correspondence with lengths to 2^64-1, 1..100+ blocks, skewed universes, blocks closed early.',
         'hand-written model of rl_vector.rs; loaded (not built) vectors are covered through the codec round trip of C06'),
 "C04": ("Unbounded Lean proof by induction over levels: map_down sends i to the position of V[i] in the stable sort by reversed bits, map_up inverts it, "
         "get/rank/select/inverse_select/contains/value iteration/pred/succ equal the list-level definitions for every vector, index, rank and value "
         "(incl. absent / out-of-alphabet), both modes; correspondence exhaustive for small vectors over widths 1..3 and random up to width 13/16, five item types.",
         "per-level bitvectors enter through their proven interface; `first` array construction proven up to IntVec packing"),
 "C05": ("Unbounded Lean proof: invariant + refinement to List Bool / List Nat for every operation and hence every finite history, canonicity "
         "(same width and content => identical value, bytes, count_ones), pack keeps content and selects the minimal width; correspondence on all "
         "histories of depth 3/4 over a 10-op alphabet and random histories with values wider than the width.", "hand-written model of raw_vector.rs / int_vector.rs"),
 "C06": ('Lean proof of the codec law (round trip with arbitrary trailing data, exact length, back-to-back streams) for every primitive codec, closed under sequencing/option, for RawVec, IntVec, rank/select supports, BitVector with all 8 support subsets AND the composite codecs sparse / run-length / wavelet matrix (core) for every value satisfying the stated well-formedness predicates, which builder outputs are proven to satisfy; byte-level corollaries.',
         "a file is modelled as its list of complete 8-byte elements; 'every loaded value is well-formed' proven in part"),
 "C07": ("A format specification written from SERIALIZATION.md alone (independent decoders) with Lean theorems relating it to the model's codecs in BOTH directions for all six structure types: written files decode by the document to the same content (RL for every accepted builder history), and document-valid files (supports absent, any admissible width 1..63, any sufficient sample width, minimally encoded RL integers) load to a value satisfying the invariant from which all queries follow. Correspondence: the implementation's bytes are decoded by the document decoder (also after mutation histories), and files from an independent document-level encoder (all widths 1..64) are loaded and queried.",
         'reading choices where the document is silent are listed in Props/C07.lean; width 64 by correspondence (F13 repaired)'),
 "C08": ('Partial proof: in the model every unchecked access is `getW`/`tableU`/`selWord`, whose out-of-range outcome is the distinct value `oob`; the theorems `op = ok _` for the plain bitvector (rank, select, scans, iterators under any call history, in-word select), the sparse vector, the run-length vector (any accepted builder history) and the wavelet matrix, for every argument, hold in BOTH arithmetic modes, i.e. no out-of-range index is ever formed. Real memory accesses are tied to this by bounds hooks compiled into the *_unchecked accessors and run in all four build configurations (overflow checks on/off x BMI2 on/off), including the public support-level API.',
         "runtime part (actual memory accesses, Vec::load's set_len, mapped slices) is observed through hooks, not proven"),
 "C09": ('Lean proof that the documented out-of-range answers are returned for EVERY argument value (arguments are naturals, so every usize is covered) in both modes, per structure: plain bitvector, sparse (set and multiset), run-length, wavelet matrix and core mappings (rank clamp, select none, empty iterators, predecessor/successor at and beyond len and usize::MAX), two-cursor iterators, constructors rejecting invalid widths; the three bitvector types agree on a common bit sequence. Correspondence on the boundary grid in both profiles.',
         ''),
 "C10": ('Lean simulation proofs: for every finite call history over the full alphabet (next, next_back, nth k, nth_back k for every k, len) the two-cursor iterators, OneIter<T>, the sparse one/bit/zero iterators (incl. the default nth), positioned iterators, the run-length run/bit/one/zero/select iterators, the wavelet-matrix ValueIter / iter / IntoIter and IntVector IntoIter refine a deque over the reference sequence. Correspondence: exhaustive call histories of depth 3/4.',
         'RL predecessor/successor iterators: first item proven, continuation by correspondence'),
 "C11": ('Canonicity theorems: RawVec/IntVec equal content => equal value; sparse encoding is a function of (n, w, P); run-length: any two accepted builder call histories describing the same bits reach the same builder, the same vector and identical bytes; round trips and chains between plain, sparse and run-length representations + correspondence over all 27 conversion chains and builder decompositions comparing == and bytes.',
         'the 27 chains are not one enumerated theorem (they follow by composition)'),
 "C12": ("Unbounded Lean proof: writer invariant (flushed words ++ buffer = everything pushed; carry-over < 64 bits) for every width, buffer size "
         "(incl. 0 and non-multiples) and push history; file after close = serialization of the in-memory vector; len exact; close idempotent; failing sink "
         "never yields a reported success with an incomplete file.", "file system modelled as header region + append-only body"),
 "C13": ("Lean proof: for a file that is any concatenation pre ++ ser x ++ post each view constructor at offset |pre| returns the content, with offset + "
         "map_len = next offset (views tile); every offset >= length refused; every truncation refused; mode-checked arithmetic. Correspondence on "
         "generated concatenations, all outside offsets up to usize::MAX, all truncations.", ""),
 "C14": ('Lean proof of the prefix law (every strict byte prefix of a serialization fails to load with EOF, never a panic or a value) for all codecs incl. sparse, run-length and wavelet matrix and back-to-back streams, and skip_option; sink law and writer failure law over a budgeted sink. OS part (RLIMIT_FSIZE) observed; serialize into a failing sink by correspondence (every budget on small structures).',
         'partial: kernel write failures observed, not modelled beyond a budget'),
 "C15": ("Same model and theorems as C02 over non-decreasing lists (multiset mode, overfull allowed): select, rank, get, pred (last occurrence), succ "
         "(first occurrence), set-bit iterator both directions, all-bits iterator skipping duplicates, acceptance exactly of non-decreasing sequences.", ""),
 "C16": ("Lean proof by induction over call histories: a call is rejected exactly under the documented conditions and rejected calls change nothing; "
         "accepted calls update len/next/is_full as the list-level reference; conversion succeeds iff full and yields the encoding of exactly the accepted "
         "positions (sparse); RL builder invariant with the repaired set_len. Correspondence: all call sequences to depth 4/5.", ""),
 "C17": ("Unbounded Lean proof: read/write of a w-bit field at every offset (one- and two-word branch), masks/tables (whole-table kernel decide over tables "
         "regenerated from bits.rs on every run), bit_len, reverse_low, rounding helpers on their whole documented domains in both modes, in-word select on "
         "BOTH the PDEP and the portable SWAR path for every word and rank.", "semantics of POPCNT/LZCNT/TZCNT/PDEP are definitions"),
 "C18": ("Partial proof over an abstract address space: with the munmap length and failure test AS EXTRACTED FROM THE SOURCE on every run, map creation "
         "either errs or maps the file, and after drop nothing remains mapped for every size and any sequence of cycles. Kernel behaviour is a definition, "
         "observed by the harness through /proc/self/maps.", "kernel semantics assumed; slice content / write-through observed only"),
 "C19": ("Lean proof: enable_* idempotent and commuting (all six orders), every subset of supports serializes and loads back to the same subset, "
         "enabling the rest reproduces the fully enabled value, answers independent of which supports are present; skip_option moves exactly past the "
         "structure (with the generated flag that the code checks the skipped length).", ""),
 "C20": ("Proof: the sequence of atomic operations and the format! call of temp_file_name are extracted from the source on every run; for a single fetch_add whose result names the file, counters are pairwise distinct along EVERY sequentially consistent schedule of ANY number of threads, and the rendered names/paths (decimal formatting injective, counter last after '_') are pairwise distinct and contain the caller's name part, for every assignment of name parts.",
         'hardware atomicity / SC of fetch_add, std PathBuf::push and Display assumed'),
}


# what the per-run translator (tools/rs2lean.py, ser_shape.py) regenerates from /repo/src for each property, with a proven
# equation `generated = model` (or an `rfl` / `decide` obligation) among the property's obligations
TRANSLATED = {
 "C01": "RankSupport::rank{,_unchecked}, SelectSupport::select_unchecked (scan loop included), BitVector::{len, count_ones, get, rank, select, select_zero, select_iter, select_zero_iter, predecessor, successor, one_iter, zero_iter, iter}, RankSupport::new (both nested loops), SelectSupport::new (outer `while`, long / short inner loops, the three packs; the two OneIters as the list of their items), BitVector::from(RawVector)",
 "C02": "SparseVector::{split, combine, pos, lower_bound, upper_bound, select, get, rank, predecessor, successor, count_zeros} (bucket scans included), find_zero_run (binary search + scan), select_zero, SparseBuilder::{get_buckets, get_params (f64 width rule as the named parameter fw), new, multiset}, SparseVector::try_from(builder)",
 "C03": "SampleIndex::{div_round_up, parameters, range}, RLVector::{blocks, ones_after, decode, block_for, iter_for_block, run_iter} (decode loop and binary search included), SampleIndex::new, RunIter::{advance_if (arbitrary closure), next, rank_zero, offset_for, rank_at}, RLVector::{iter_for_bit, iter_for_one, iter_for_zero, get, rank, select, select_iter, zero_iter, select_zero, select_zero_iter, successor, iter, one_iter, count_zeros} (all loops included), impl From<RLBuilder> for RLVector (flush, the three indexes over samples.iter().map(..), compressed samples); RLVector::predecessor (closure lambda-lifted from the source, RunIter::advance_if once more with a state-passing closure)",
 "C04": "WMCore::{bit_value, map_down_one, map_down_zero, map_up_one, map_up_zero, map_down, map_down_with, map_down_with_two_positions, map_up_with} (level loops included), WMCore::from(Vec<u64>) (the macro_rules! body at u64) and WMCore::init_support, WaveletMatrix::from(Vec<u64>) and start_offsets (counting, both sorts, prefix sums, collect, pack), WaveletMatrix::{start, contains, rank, select, inverse_select, get}, ValueIter::next, the default VectorIndex::{predecessor, successor}",
 "C05": "RawVector::{bit, int, word, word_unchecked, set_unused_bits, set_bit, set_int, push_bit, push_int, pop_bit, pop_int, resize, count_ones}, IntVector::{new, with_len, with_capacity, get, set, push, pop, clear, pack}, RawVector::{new, with_len, with_capacity, complement, reserve}, IntVector::{resize, reserve}, Extend<u64> / From<Vec<u64>> / FromIterator<u64> for IntVector (the macro body at u64); the u8 / u16 / u32 / usize instances of the From / FromIterator / Extend macro (Extend definitionally the u64 translation)",
 "C06": "the field order of serialize_header / serialize_body, the load order and the size_in_elements summands of all 14 `impl Serialize` blocks; the `load` functions of RawVector, IntVector, RankSupport, SelectSupport, BitVector, SparseVector, WaveletMatrix, RLVector, WMCore (reader threaded through — also through the level loop of WMCore —, every sanity check); the generic Option<V>::load at the instances BitVector::load uses, and BitVector::load / WaveletMatrix::load once more over the TRANSLATED inner loaders (nothing left to the model codecs)",
 "C08": "Identity / Complement ::{bit, word, word_unchecked, count_ones}",
 "C10": "the consumed plain one/zero iterator is the list of its items (any next/nth sequence, run with the translated methods); the five methods of ops::AccessIter and of bit_vector::Iter; OneIter<T>::{next, nth, next_back, size_hint} (word scans included); sparse_vector::{OneIter::{next, next_back, size_hint}, ZeroIter::{next_run, next, size_hint}, Iter::{next, next_back, size_hint}} and SparseVector::{one_iter, select_iter, zero_iter, select_zero_iter, iter}; rl_vector::{OneIter, ZeroIter, Iter}::{next, size_hint}",
 "C11": "BitVector::copy_bit_vec, RLVector::copy_bit_vec, SparseVector::copy_bit_vec (= the six From impls of support.rs), generic over the source (its len, count_ones and the items of its one_iter); FromIterator<bool> for BitVector",
 "C12": "RawVectorWriter::{push_bit, push_int, close_with_header, close}, IntVectorWriter::{push, close} (flush / write_header named by their model functions)",
 "C13": "RawVectorMapper::{bit, int, word, word_unchecked, count_ones}, IntVectorMapper::get (definitionally the in-memory accessors); the view constructors MappedSlice<T>::new, MappedBytes::new, RawVectorMapper::new, IntVectorMapper::new and their map_offset / map_len; MappedStr::new (the translated MappedBytes::new followed by the UTF-8 test, a named parameter); MappedOption<T>::new for any inner constructor",
 "C14": "every statement of every serialize_header / serialize_body (obligation: each is a `?`-joined serialize / write_all); skip_option (bounded copy named copyTakeSink) = the specified skip on every stream whose prefix is below 2^61",
 "C15": "SparseVector::try_from_iter (size_hint, next_back, multiset builder, try_set chain, try_from), SparseVector::is_multiset",
 "C16": "RLBuilder::{count_zeros, code_len, flush, set_run_unchecked, set_bit_unchecked, try_set, set_len}, SparseBuilder::{is_full, capacity, universe, next_index, is_multiset, is_empty, set_unchecked, try_set, get_params, new, multiset}, SparseVector::try_from(builder), SparseBuilder::{set, extend}, RLBuilder::{default, new, encode}",
 "C17": "every function of bits.rs except select: low_set, high_set (+ unchecked), bit_len, reverse_low, filler_value, read_int, write_int and the nine rounding / offset helpers",
 "C19": "BitVector::{supports_rank, supports_select, supports_select_zero, supports_pred_succ, enable_rank, enable_select, enable_select_zero, enable_pred_succ}; the loaders of BitVector, SparseVector, WaveletMatrix and SparseBuilder::get_buckets at every admissible low width; skip_option (moves exactly past the optional structure)",
}


def n_translated():
    sys.path.insert(0, os.path.join(ROOT, "tools"))
    import fn_table
    return sum(len(g[2]) for g in fn_table.GROUPS) + 9 - len(UNPROVEN)


# translated but not (yet) tied to the model by a proven equation: not counted, not named in any obligation
UNPROVEN = []


def main():
    props = [json.loads(l) for l in open(os.path.join(ROOT, "properties.jsonl"))]
    commits = subprocess.run(["git", "-C", "/repo", "log", "--format=%h %s"], capture_output=True, text=True).stdout.splitlines()
    hook = [l.split()[0] for l in commits if "verif_hooks" in l]
    claimed = [p["id"] for p in props if os.path.exists(os.path.join(ROOT, "lean", "Sds", "Props", p["id"] + ".lean"))
               and os.path.exists(os.path.join(ROOT, "lean", "Sds", "Audit", p["id"] + ".lean"))]
    m = {
        "version": 1,
        "setup_cmd": "./setup.sh",
        "hooks": {"guard": "cargo feature verif_hooks (off by default)",
                  "enable": "the harness crate depends on simple-sds by path (/repo) with features = [\"verif_hooks\"]",
                  "baseline_off_cmd": "cd /repo && cargo test --workspace --no-fail-fast --offline",
                  "source_commits": hook, "add_only": True},
        "engines": [{"name": "lean-proof+correspondence", "path": "tools/check.py", "serves_properties": claimed,
                     "kind_free_text": "Lean 4 theorems about an executable model (core Lean, kernel-checked, axioms audited) + a translator that on every run "
                                       "regenerates from /repo/src the tables / constants / atomic-op shape AND, statement by statement, the bodies of NFUN functions "
                                       "(loops and loaders included) and the shape of all 14 serializers, each tied to the model by a proven equation + a differential correspondence check "
                                       "(Rust harness linking the real crate vs compiled Lean driver running the model's executable definitions and an independent spec)".replace("NFUN", str(n_translated()))}],
        "checks": [], "not_applicable": [],
        "notes": "see DESIGN.md. Every check run = translate, lake build + #print axioms audit + source hygiene grep, harness build from /repo's working tree "
                 "(hooks on), corpus of minimised past failures, regime-directed correspondence, three-way verdict, evidence.",
    }
    for p in props:
        pid = p["id"]
        if pid in claimed:
            text, note = TEXT[pid]
            m["checks"].append({
                "property_id": pid, "quick_cmd": "./check %s quick" % pid, "thorough_cmd": "./check %s thorough" % pid,
                "evidence_file": "/verif/evidence/%s.json" % pid, "replay_cmd_template": "./check --replay {path}",
                "engine": "lean-proof+correspondence",
                "level_claimed": {"category": "proof", "text": text + ((" Translated from the source on every run, statement by statement, with a "
                                  "proven equation to the model function among this property's obligations: " + TRANSLATED[pid] + ".") if pid in TRANSLATED else ""),
                                  "design_ref": "DESIGN.md section 6 (%s)" % pid},
                "level_note": ("Trusted: Lean 4.33 kernel; axioms propext, Classical.choice, Quot.sound only (audited per theorem); the translator (tools/gen_lean.py, rs2lean.py, "
                               "fn_table.py, ser_shape.py; operator semantics in Model/GenSupport.lean); harness + driver + check.py; for the parts of the code "
                               "outside the translated subset, that the hand-written model corresponds to the code on all inputs, not only those run. " + note).strip(),
                "technique": "machine-checked Lean 4 proof over an executable model; model tied to the code by per-run translation of the source (tables, constants, function bodies statement by statement, serializer shapes) with proven equations, and by differential correspondence"})
        else:
            m["not_applicable"].append({"property_id": pid, "reason": "property theorems not assembled yet in this round (model, proofs and correspondence exist; see DESIGN.md) — not a claim that the technique cannot apply"})
    json.dump(m, open(os.path.join(ROOT, "MANIFEST.json"), "w"), indent=1)
    print("claimed:", claimed)


if __name__ == "__main__":
    main()
