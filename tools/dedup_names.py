#!/usr/bin/env python3
"""Merge helper: find declarations with the same fully qualified name in several Proofs/*.lean files
(proof files written independently) and rename them in all but the first file (import order given on
the command line) by appending a per-file suffix.  Only used while merging; not part of any check."""
import re, sys, os
files = sys.argv[1:]
decl = re.compile(r"^(?:@\[[^\]]*\]\s*)?(?:private\s+|protected\s+|noncomputable\s+)*(theorem|lemma|def|structure|inductive|abbrev|instance)\s+([A-Za-z_][\w.'!?]*)")
def names(path):
    ns, out = [], []
    for line in open(path):
        m = re.match(r"^namespace\s+(\S+)", line)
        if m: ns.append(m.group(1)); continue
        m = re.match(r"^end\s+(\S+)", line)
        if m and ns and ns[-1] == m.group(1): ns.pop(); continue
        m = decl.match(line)
        if m: out.append((".".join(ns + [m.group(2)]), m.group(2)))
    return out
seen = {}
for f in files:
    tag = "_" + os.path.basename(f).split(".")[0].lower()[:3]
    ren = []
    for full, short in names(f):
        if full in seen and seen[full] != f:
            ren.append(short)
        else:
            seen.setdefault(full, f)
    if ren:
        s = open(f).read()
        for short in sorted(set(ren), key=len, reverse=True):
            s = re.sub(r"(?<![\w.'])" + re.escape(short) + r"(?![\w'])", short + tag, s)
        open(f, "w").write(s)
        print(f, "renamed:", sorted(set(ren)))
